//go:build verif

package gogosnapshot

import (
	"bytes"
	"io"

	zz "github.com/PowerDNS/lightningstream/internal/zzverif"
	"github.com/PowerDNS/lightningstream/snapshot"
)

// vBlob returns n bytes with arbitrary first and last bytes (the rest constant): enough to
// observe truncation, shifting and off-by-one errors while keeping the terms small.
func vBlob(name string, n int) []byte {
	b := make([]byte, n)
	for i := range b {
		b[i] = byte('a' + i%23)
	}
	if n >= 1 {
		b[0] = zz.NondetU8(name + ".first")
	}
	if n >= 2 {
		b[n-1] = zz.NondetU8(name + ".last")
	}
	return b
}

var vLens = []int{0, 1, 2, 127, 128}

func vAll(d *snapshot.DBI) ([]snapshot.KV, error) {
	var out []snapshot.KV
	d.ResetCursor()
	for i := 0; i < 8; i++ {
		kv, err := d.Next()
		if err == io.EOF {
			return out, nil
		}
		if err != nil {
			return out, err
		}
		out = append(out, kv)
	}
	return out, io.ErrShortBuffer
}

// VerifC07RoundTrip: custom writer -> custom reader and custom writer -> reference reader,
// over the size classes of keys, values, names and all 64/32-bit numeric fields.
func VerifC07RoundTrip() { verifC07RoundTrip(false) }

// VerifC07RoundTripNum: the numeric fields (all 64/32-bit values, every varint size).
func VerifC07RoundTripNum() { verifC07RoundTrip(true) }

func verifC07RoundTrip(numeric bool) {
	var klen, vlen, nlen, tlen int
	var flags, ts, ts2 uint64
	var kflags uint32
	if numeric {
		klen, vlen, nlen, tlen = 1, 1, 1, 0
		flags, ts, ts2, kflags = zz.NondetU64("dbi.flags"), zz.NondetU64("ts"), zz.NondetU64("ts2"), zz.NondetU32("flags")
	} else {
		sh := zz.Shard(20)
		klen = []int{1, 2, 127, 128}[sh%4]
		vlen = vLens[sh/4]
		nlen = vLens[zz.Choice("name.len", 5)]
		tlen = []int{0, 1, 15}[zz.Choice("transform.len", 3)]
		flags, ts, ts2, kflags = 8, 5, 0, 1
	}
	name := string(vBlob("name", nlen))
	transform := string(vBlob("transform", tlen))
	kv := snapshot.KV{Key: vBlob("k", klen), Value: vBlob("v", vlen), TimestampNano: ts, Flags: kflags}
	kv2 := snapshot.KV{Key: []byte("z"), TimestampNano: ts2}
	d := snapshot.NewDBISize(64) // small: forces the growth branch for the big size classes
	d.SetName(name)
	d.SetFlags(flags)
	d.SetTransform(transform)
	d.Append(kv)
	d.Append(kv2)
	data := d.Marshal()

	// custom reader
	d2, err := snapshot.NewDBIFromData(data)
	zz.Assert(err == nil, "C07/roundtrip/custom-reader-accepts")
	if err != nil {
		return
	}
	zz.Assert(d2.Name() == name && d2.Flags() == flags && d2.Transform() == transform, "C07/roundtrip/dbi-fields")
	got, err := vAll(d2)
	zz.Assert(err == nil && len(got) == 2, "C07/roundtrip/entry-count")
	if len(got) == 2 {
		zz.Assert(bytes.Equal(got[0].Key, kv.Key) && bytes.Equal(got[0].Value, kv.Value), "C07/roundtrip/key-value")
		zz.Assert(got[0].TimestampNano == kv.TimestampNano && got[0].Flags == kv.Flags, "C07/roundtrip/ts-flags")
		zz.Assert(bytes.Equal(got[1].Key, kv2.Key) && len(got[1].Value) == 0 && got[1].TimestampNano == kv2.TimestampNano, "C07/roundtrip/second-entry")
	}
	// reference reader (generated code for the published schema)
	var ref DBI
	rerr := ref.Unmarshal(data)
	zz.Assert(rerr == nil, "C07/wire/reference-accepts-custom-bytes")
	if rerr == nil {
		zz.Assert(ref.Name == name && ref.Flags == flags && ref.Transform == transform, "C07/wire/reference-dbi-fields")
		zz.Assert(len(ref.Entries) == 2, "C07/wire/reference-entry-count")
		if len(ref.Entries) == 2 {
			zz.Assert(bytes.Equal(ref.Entries[0].Key, kv.Key) && bytes.Equal(ref.Entries[0].Value, kv.Value) &&
				ref.Entries[0].TimestampNano == kv.TimestampNano && ref.Entries[0].Flags == kv.Flags, "C07/wire/reference-entry")
		}
	}
	zz.Reach("C07/roundtrip/done")
}

// VerifC07RefToCustom: reference writer -> custom reader.
func VerifC07RefToCustom() { verifC07RefToCustom(false) }

func VerifC07RefToCustomNum() { verifC07RefToCustom(true) }

func verifC07RefToCustom(numeric bool) {
	var klen, vlen, nlen, tlen int
	var flags, ts, ts2 uint64
	var kflags uint32
	if numeric {
		klen, vlen, nlen, tlen = 1, 1, 1, 0
		flags, ts, ts2, kflags = zz.NondetU64("dbi.flags"), zz.NondetU64("ts"), zz.NondetU64("ts2"), zz.NondetU32("flags")
	} else {
		sh := zz.Shard(20)
		klen = []int{1, 2, 127, 128}[sh%4]
		vlen = vLens[sh/4]
		nlen = vLens[zz.Choice("name.len", 5)]
		tlen = []int{0, 1, 15}[zz.Choice("transform.len", 3)]
		flags, ts, ts2, kflags = 8, 5, 0, 1
	}
	ref := DBI{
		Name:      string(vBlob("name", nlen)),
		Flags:     flags,
		Transform: string(vBlob("transform", tlen)),
		Entries: []KV{
			{Key: vBlob("k", klen), Value: vBlob("v", vlen), TimestampNano: ts, Flags: kflags},
			{Key: []byte("z"), TimestampNano: ts2},
		},
	}
	data, err := ref.Marshal()
	if err != nil {
		zz.Assert(false, "harness/reference-marshal")
		return
	}
	d, err := snapshot.NewDBIFromData(data)
	zz.Assert(err == nil, "C07/wire/custom-accepts-reference-bytes")
	if err != nil {
		return
	}
	zz.Assert(d.Name() == ref.Name && d.Flags() == ref.Flags && d.Transform() == ref.Transform, "C07/wire/custom-dbi-fields")
	got, err := vAll(d)
	zz.Assert(err == nil && len(got) == 2, "C07/wire/custom-entry-count")
	if len(got) == 2 {
		e := ref.Entries[0]
		zz.Assert(bytes.Equal(got[0].Key, e.Key) && bytes.Equal(got[0].Value, e.Value) &&
			got[0].TimestampNano == e.TimestampNano && got[0].Flags == e.Flags, "C07/wire/custom-entry")
	}
	zz.Reach("C07/reftocustom/done")
}

// ----- forward compatibility: fields in any order, unknown fields of every wire type -----

func vVarint(b []byte, v uint64) []byte {
	for v >= 0x80 {
		b = append(b, byte(v)|0x80)
		v >>= 7
	}
	return append(b, byte(v))
}

// vUnknown appends an unknown field (number fn, wire type wt in {0,1,2,5}) with arbitrary payload.
func vUnknown(b []byte, name string, fn int, wt int) []byte {
	b = vVarint(b, uint64(fn<<3|wt))
	switch wt {
	case 0:
		// 1..3 byte varints, plus the 10-byte form through the sign bit
		v := uint64(zz.NondetU16(name + ".varint"))
		if zz.NondetBool(name + ".varint.big") {
			v |= 1 << 63
		}
		return vVarint(b, v)
	case 1:
		return append(b, zz.NondetBytes(name+".fixed64", 8)...)
	case 5:
		return append(b, zz.NondetBytes(name+".fixed32", 4)...)
	}
	n := zz.Choice(name+".len", 3)
	b = vVarint(b, uint64(n))
	return append(b, zz.NondetBytes(name+".bytes", n)...)
}

var vWireTypes = []int{0, 1, 2, 5}

// VerifC07ForwardDBI: a DBI message made of 3 fields in arbitrary order, drawn from the known
// fields and unknown fields (number 5 or 17, every proto3 wire type): the custom reader
// accepts it and yields what the reference reader yields.
func VerifC07ForwardDBI()  { verifC07ForwardDBI(2) }
func VerifC07ForwardDBI3() { verifC07ForwardDBI(3) }

func verifC07ForwardDBI(nFields int) {
	var msg []byte
	nUnknown := 0
	for i := 0; i < nFields; i++ {
		nm := "f" + string(rune('0'+i))
		kind := zz.Choice(nm+".kind", 6)
		if i == 0 {
			kind = zz.Shard(6)
		}
		switch kind {
		case 0: // name
			msg = append(msg, 0x0a, 1, zz.NondetU8(nm+".name"))
		case 1: // one entry {key: 1 byte, ts}
			msg = append(msg, 0x12, 12, 0x0a, 1, zz.NondetU8(nm+".key"), 0x19)
			msg = append(msg, zz.NondetBytes(nm+".ts", 8)...)
		case 2: // flags
			msg = vVarint(append(msg, 0x18), uint64(zz.NondetU8(nm+".flags")))
		case 3: // transform
			msg = append(msg, 0x22, 1, zz.NondetU8(nm+".transform"))
		case 4: // unknown field 5
			nUnknown++
			msg = vUnknown(msg, nm, 5, vWireTypes[zz.Choice(nm+".wt", 4)])
		default: // unknown field 17 (two-byte tag)
			nUnknown++
			msg = vUnknown(msg, nm, 17, vWireTypes[zz.Choice(nm+".wt", 4)])
		}
	}
	var ref DBI
	rerr := ref.Unmarshal(msg)
	if rerr != nil {
		zz.Reach("C07/forward/reference-rejects")
		return // not a valid message of the schema
	}
	d, err := snapshot.NewDBIFromData(msg)
	zz.Assert(err == nil, "C07/forward/dbi/valid-message-accepted")
	if err != nil {
		return
	}
	zz.Assert(d.Name() == ref.Name && d.Flags() == ref.Flags && d.Transform() == ref.Transform, "C07/forward/dbi/fields-as-reference")
	got, err := vAll(d)
	zz.Assert(err == nil, "C07/forward/dbi/entries-decode")
	zz.Assert(len(got) == len(ref.Entries), "C07/forward/dbi/entry-count-as-reference")
	if err == nil && len(got) == len(ref.Entries) {
		for i := range got {
			zz.Assert(bytes.Equal(got[i].Key, ref.Entries[i].Key) && got[i].TimestampNano == ref.Entries[i].TimestampNano, "C07/forward/dbi/entry-as-reference")
		}
	}
	zz.Reach("C07/forward/dbi/done")
}

// VerifC07ForwardKV: the same inside one KV message.
func VerifC07ForwardKV()  { verifC07ForwardKV(2) }
func VerifC07ForwardKV3() { verifC07ForwardKV(3) }

func verifC07ForwardKV(nFields int) {
	var msg []byte
	for i := 0; i < nFields; i++ {
		nm := "f" + string(rune('0'+i))
		kind := zz.Choice(nm+".kind", 6)
		if i == 0 {
			kind = zz.Shard(6)
		}
		switch kind {
		case 0:
			msg = append(msg, 0x0a, 1, zz.NondetU8(nm+".key"))
		case 1:
			msg = append(msg, 0x12, 1, zz.NondetU8(nm+".val"))
		case 2:
			msg = append(append(msg, 0x19), zz.NondetBytes(nm+".ts", 8)...)
		case 3:
			msg = vVarint(append(msg, 0x20), uint64(zz.NondetU16(nm+".flags")))
		case 4:
			msg = vUnknown(msg, nm, 5, vWireTypes[zz.Choice(nm+".wt", 4)])
		default:
			msg = vUnknown(msg, nm, 17, vWireTypes[zz.Choice(nm+".wt", 4)])
		}
	}
	var ref KV
	if ref.Unmarshal(msg) != nil {
		zz.Reach("C07/forward/reference-rejects")
		return
	}
	var kv snapshot.KV
	err := kv.Unmarshal(msg)
	zz.Assert(err == nil, "C07/forward/kv/valid-message-accepted")
	if err == nil {
		zz.Assert(bytes.Equal(kv.Key, ref.Key) && bytes.Equal(kv.Value, ref.Value) && kv.TimestampNano == ref.TimestampNano && kv.Flags == ref.Flags, "C07/forward/kv/as-reference")
	}
	zz.Reach("C07/forward/kv/done")
}

// VerifC07Snapshot: top-level message and Meta: custom writer -> custom reader and reference reader.
func VerifC07Snapshot() {
	s := &snapshot.Snapshot{FormatVersion: uint32(zz.NondetU8("fv")), CompatVersion: uint32(zz.NondetU8("cv"))}
	s.Meta = snapshot.Meta{
		GenerationID:  "GX",
		InstanceID:    string(vBlob("inst", 2*zz.Choice("inst.len", 2))),
		Hostname:      "h",
		LmdbTxnID:     int64(zz.NondetU16("txnid")),
		TimestampNano: zz.NondetU64("ts"),
		DatabaseName:  string(vBlob("db", zz.Choice("db.len", 2))),
		FromLmdbTxnID: int64(zz.NondetU8("fromtxnid")),
	}
	zz.Assume(zz.And(s.Meta.LmdbTxnID >= 0, s.Meta.FromLmdbTxnID >= 0)) // transaction ids are non-negative
	nd := zz.Choice("ndbi", 3)
	for i := 0; i < nd; i++ {
		d := snapshot.NewDBISize(32)
		d.SetName("d" + string(rune('0'+i)))
		if i == 0 {
			d.Append(snapshot.KV{Key: []byte("k"), Value: vBlob("v", 2), TimestampNano: 5})
		}
		s.Databases = append(s.Databases, d)
	}
	var buf bytes.Buffer
	_, err := s.WriteTo(&buf)
	zz.Assert(err == nil, "C07/snapshot/write")
	data := buf.Bytes()
	var s2 snapshot.Snapshot
	err = s2.Unmarshal(data)
	zz.Assert(err == nil, "C07/snapshot/custom-reader-accepts")
	if err == nil {
		zz.Assert(s2.FormatVersion == s.FormatVersion && s2.CompatVersion == s.CompatVersion, "C07/snapshot/versions")
		zz.Assert(s2.Meta == s.Meta, "C07/snapshot/meta")
		zz.Assert(len(s2.Databases) == nd, "C07/snapshot/dbi-count")
		for i := 0; i < nd && i < len(s2.Databases); i++ {
			zz.Assert(s2.Databases[i].Name() == s.Databases[i].Name(), "C07/snapshot/dbi-name")
		}
	}
	var ref Snapshot
	rerr := ref.Unmarshal(data)
	zz.Assert(rerr == nil, "C07/wire/reference-accepts-custom-snapshot")
	if rerr == nil {
		zz.Assert(ref.FormatVersion == s.FormatVersion && ref.CompatVersion == s.CompatVersion, "C07/wire/reference-versions")
		m := ref.Meta
		zz.Assert(m.GenerationID == s.Meta.GenerationID && m.InstanceID == s.Meta.InstanceID && m.Hostname == s.Meta.Hostname &&
			m.LmdbTxnID == s.Meta.LmdbTxnID && m.TimestampNano == s.Meta.TimestampNano && m.DatabaseName == s.Meta.DatabaseName &&
			m.FromLmdbTxnID == s.Meta.FromLmdbTxnID, "C07/wire/reference-meta")
		zz.Assert(len(ref.Databases) == nd, "C07/wire/reference-dbi-count")
	}
	zz.Reach("C07/snapshot/done")
}

// vBig returns n zero bytes with arbitrary first and last bytes (no per-byte loop: the
// engine keeps such buffers sparse).
func vBig(name string, n int) []byte {
	b := make([]byte, n)
	b[0] = zz.NondetU8(name + ".first")
	b[n-1] = zz.NondetU8(name + ".last")
	return b
}

// VerifC07Growth: entries that cross the buffer growth steps (10 MB step, doubling): a value
// larger than the next step appended to a non-empty buffer, and a 5..10 MB value appended to a
// partly filled pre-sized buffer. Round trip through the custom reader.
func VerifC07Growth() {
	shape := zz.Choice("shape", 3)
	var d *snapshot.DBI
	var big []byte
	pre := 0
	switch shape {
	case 0: // named DBI, one 12 MB value
		d = snapshot.NewDBI()
		d.SetName("d")
		big = vBig("big", 12<<20)
	case 1: // pre-sized 4 MB buffer partly filled, then a 7 MB value
		d = snapshot.NewDBISize(4 << 20)
		d.SetName("d")
		d.Append(snapshot.KV{Key: []byte("a"), Value: vBig("fill", 3<<20+(1<<19)), TimestampNano: 1})
		pre = 1
		big = vBig("big", 7<<20)
	default: // two 6 MB values: second growth (doubling)
		d = snapshot.NewDBI()
		d.SetName("d")
		d.Append(snapshot.KV{Key: []byte("a"), Value: vBig("fill", 6<<20), TimestampNano: 1})
		pre = 1
		big = vBig("big", 6<<20)
	}
	kv := snapshot.KV{Key: []byte("k"), Value: big, TimestampNano: zz.NondetU64("ts"), Flags: 1}
	d.Append(kv)
	d.Append(snapshot.KV{Key: []byte("z"), TimestampNano: 3})
	data := d.Marshal()
	d2, err := snapshot.NewDBIFromData(data)
	zz.Assert(err == nil, "C07/growth/reader-accepts")
	if err != nil {
		return
	}
	got, err := vAll(d2)
	zz.Assert(err == nil && len(got) == pre+2, "C07/growth/entry-count")
	if len(got) == pre+2 {
		g := got[pre]
		zz.Assert(bytes.Equal(g.Key, kv.Key) && g.TimestampNano == kv.TimestampNano && g.Flags == 1, "C07/growth/fields")
		zz.Assert(len(g.Value) == len(big), "C07/growth/value-length")
		if len(g.Value) == len(big) {
			zz.Assert(g.Value[0] == big[0] && g.Value[len(big)-1] == big[len(big)-1], "C07/growth/value-ends")
		}
		zz.Assert(bytes.Equal(got[pre+1].Key, []byte("z")), "C07/growth/following-entry")
	}
	zz.Reach("C07/growth/done")
}

// VerifC07EntrySize: the encoded size of one entry swept across the boundaries of its length
// varint (127/128/129, 255/256/257, 16383/16384/16385 bytes), plus exact multiples of 128:
// custom writer -> custom reader and reference reader.
func VerifC07EntrySize() {
	targets := []int{126, 127, 128, 129, 255, 256, 257, 384, 16383, 16384, 16385}
	target := targets[zz.Shard(len(targets))]
	// entry = key(1+1+1) + flags(1+1) + ts(1+8) + value(1+varint(len)+len)
	rest := target - 3 - 2 - 9 - 1
	vlen := rest - 1
	if rest-1 > 127 {
		vlen = rest - 2
	}
	if rest-2 > 16383 {
		vlen = rest - 3
	}
	val := make([]byte, vlen)
	val[0] = zz.NondetU8("v.first")
	val[vlen-1] = zz.NondetU8("v.last")
	kv := snapshot.KV{Key: []byte{zz.NondetU8("k")}, Value: val, TimestampNano: zz.NondetU64("ts") | 1, Flags: 1}
	after := snapshot.KV{Key: []byte("z"), Value: []byte{zz.NondetU8("z.val")}, TimestampNano: 3}
	d := snapshot.NewDBISize(64)
	d.SetName("d")
	d.Append(snapshot.KV{Key: []byte("a"), TimestampNano: 1})
	d.Append(kv)
	d.Append(after)
	data := d.Marshal()
	d2, err := snapshot.NewDBIFromData(data)
	zz.Assert(err == nil, "C07/entrysize/reader-accepts")
	if err != nil {
		return
	}
	got, err := vAll(d2)
	zz.Assert(err == nil && len(got) == 3, "C07/entrysize/all-entries-decode")
	if len(got) == 3 {
		zz.Assert(bytes.Equal(got[1].Key, kv.Key) && len(got[1].Value) == vlen && got[1].TimestampNano == kv.TimestampNano, "C07/entrysize/entry")
		zz.Assert(len(got[1].Value) == vlen && got[1].Value[0] == val[0] && got[1].Value[vlen-1] == val[vlen-1], "C07/entrysize/value-ends")
		zz.Assert(bytes.Equal(got[2].Key, after.Key) && bytes.Equal(got[2].Value, after.Value), "C07/entrysize/following-entry")
	}
	var ref DBI
	if rerr := ref.Unmarshal(data); rerr == nil {
		zz.Assert(len(ref.Entries) == 3 && len(ref.Entries[1].Value) == vlen, "C07/entrysize/reference-agrees")
	} else {
		zz.Assert(false, "C07/entrysize/reference-accepts")
	}
	zz.Reach("C07/entrysize/done")
}
