//go:build verif

package snapshot

import (
	"strings"
	"time"

	zz "github.com/PowerDNS/lightningstream/internal/zzverif"
	"github.com/PowerDNS/lightningstream/lmdbenv/header"
)

// vSafeName returns a name of 1..maxLen characters over the documented safe alphabet
// (letters, digits, dashes).
func vSafeName(name string, maxLen int) string {
	n := 1 + zz.Choice(name+".len", maxLen)
	b := zz.NondetBytes(name, n)
	for _, c := range b {
		zz.Assume(zz.Or(zz.Or(zz.And(c >= 'a', c <= 'z'), zz.And(c >= 'A', c <= 'Z')), zz.Or(zz.And(c >= '0', c <= '9'), c == '-')))
	}
	return string(b)
}

func vInstant(name string) time.Time {
	ns := zz.NondetI64(name)
	// 1970 .. 2262 at nanosecond resolution
	zz.Assume(ns >= 0)
	return time.Unix(0, ns)
}

// VerifC15RoundTrip: parsing a built name returns exactly its components.
func VerifC15RoundTrip() {
	ni := NameInfo{
		Kind:         KindSnapshot,
		Extension:    DefaultExtension,
		SyncerName:   vSafeName("db", 2),
		InstanceID:   vSafeName("inst", 2),
		GenerationID: "G" + vSafeName("gen", 1),
		Timestamp:    vInstant("ts"),
	}
	if zz.Choice("extra", 2) == 1 {
		ni.Extra = NameExtra{NameExtraItem("X" + vSafeName("xval", 1))}
	}
	name := ni.BuildName()
	got, err := ParseName(name)
	zz.Assert(err == nil, "C15/roundtrip/built-name-parses")
	if err != nil {
		return
	}
	zz.Assert(got.FullName == name, "C15/roundtrip/fullname")
	zz.Assert(got.SyncerName == ni.SyncerName, "C15/roundtrip/database")
	zz.Assert(got.InstanceID == ni.InstanceID, "C15/roundtrip/instance")
	zz.Assert(got.GenerationID == ni.GenerationID, "C15/roundtrip/generation")
	zz.Assert(got.Kind == KindSnapshot && got.Extension == DefaultExtension, "C15/roundtrip/kind")
	zz.Assert(got.Timestamp.UnixNano() == ni.Timestamp.UnixNano(), "C15/roundtrip/timestamp")
	zz.Assert(len(got.Extra) == len(ni.Extra), "C15/roundtrip/extra-count")
	if len(got.Extra) == 1 && len(ni.Extra) == 1 {
		zz.Assert(got.Extra[0] == ni.Extra[0], "C15/roundtrip/extra")
	}
	zz.Reach("C15/roundtrip/done")
}

// VerifC15Order: for one database and instance the byte order of names is the order of
// their timestamps, so the last name of a sorted listing is the newest snapshot.
func VerifC15Order() {
	db, inst := vSafeName("db", 2), vSafeName("inst", 2)
	t1, t2 := vInstant("t1"), vInstant("t2")
	n1 := NameInfo{Extension: DefaultExtension, SyncerName: db, InstanceID: inst, GenerationID: "GX", Timestamp: t1}.BuildName()
	n2 := NameInfo{Extension: DefaultExtension, SyncerName: db, InstanceID: inst, GenerationID: "GX", Timestamp: t2}.BuildName()
	zz.Assert(zz.Implies(t1.Before(t2), n1 < n2), "C15/order/earlier-sorts-first")
	zz.Assert(zz.Implies(t1.Equal(t2), n1 == n2), "C15/order/same-instant-same-name")
	zz.Assert(len(n1) == len(n2), "C15/order/fixed-width")
	zz.Reach("C15/order/done")
}

// VerifC15Prefix: a name of database d is never taken for a snapshot of another database:
// it does not start with d2+"__" for any other safe name d2, and names of d do start with d+"__".
func VerifC15Prefix() {
	d, d2 := vSafeName("db", 2), vSafeName("db2", 3)
	zz.Assume(d != d2)
	n := NameInfo{Extension: DefaultExtension, SyncerName: d, InstanceID: vSafeName("inst", 2), GenerationID: "GX", Timestamp: vInstant("ts")}.BuildName()
	zz.Assert(strings.HasPrefix(n, d+"__"), "C15/prefix/own-database")
	zz.Assert(!strings.HasPrefix(n, d2+"__"), "C15/prefix/other-database")
	zz.Reach("C15/prefix/done")
}

// VerifC15Parse: the parser on strings around a valid skeleton: never panics; anything that is
// not <db>__<instance>__<25-char timestamp>__<generation>[__extra].<registered extension> is rejected.
func VerifC15Parse() {
	shape := zz.Choice("shape", 6)
	// a digit skeleton with arbitrary bytes at the positions the parser looks at
	tsb := []byte("20240102-030405-000000000")
	for _, pos := range []int{0, 8, 15, 24} {
		tsb[pos] = zz.NondetU8("ts." + string(rune('a'+pos)))
	}
	ts := string(tsb)
	var name string
	switch shape {
	case 0: // valid skeleton, arbitrary timestamp characters
		name = "d__i__" + ts + "__GX.pb.gz"
	case 1: // too few parts
		name = "d__" + ts + "__GX.pb.gz"
	case 2: // other extension
		name = "d__i__" + ts + "__GX.pb." + string(zz.NondetBytes("ext", 2))
	case 3: // no dot at all
		name = "d__i__" + string(zz.NondetBytes("short", 3))
	case 4: // short timestamp
		name = "d__i__" + ts[:24] + "__GX.pb.gz"
	default: // empty extra item and arbitrary extra
		name = "d__i__" + ts + "__GX____" + string(zz.NondetBytes("x", 2)) + ".pb.gz"
	}
	ni, err := ParseName(name)
	if err == nil {
		zz.Assert(ni.Kind == KindSnapshot, "C15/parse/accepted-is-registered-kind")
		zz.Assert(len(ni.TimestampString) == 25 && ni.TimestampString[15] == '-', "C15/parse/accepted-has-fixed-width-timestamp")
		zz.Assert(shape == 0 || shape == 2 || shape == 5, "C15/parse/malformed-skeleton-rejected")
		zz.Reach("C15/parse/accepted")
	} else {
		zz.Reach("C15/parse/rejected")
	}
}

// VerifC15Zone: the time handed to the builder is in the process's local zone (time.Now(),
// time.Unix() and header.Timestamp.Time() all return local times), which is an arbitrary fixed
// offset: names are still rendered in UTC, so they round-trip to the same instant and sort by
// instant across zones.
func VerifC15Zone() {
	zz.LocalZone()
	t1, t2 := vInstant("t1"), vInstant("t2")
	if zz.Choice("t2.utc", 2) == 1 {
		t2 = t2.UTC()
	}
	n1 := NameInfo{Extension: DefaultExtension, SyncerName: "d", InstanceID: "i", GenerationID: "GX", Timestamp: t1}.BuildName()
	n2 := NameInfo{Extension: DefaultExtension, SyncerName: "d", InstanceID: "i", GenerationID: "GX", Timestamp: t2}.BuildName()
	got, err := ParseName(n1)
	zz.Assert(err == nil, "C15/zone/built-name-parses")
	if err == nil {
		zz.Assert(got.Timestamp.UnixNano() == t1.UnixNano(), "C15/zone/roundtrip-same-instant")
	}
	zz.Assert(zz.Implies(t1.Before(t2), n1 < n2), "C15/zone/earlier-sorts-first")
	zz.Assert(NameTimestampFromNano(header.Timestamp(t1.UnixNano())) == NameTimestamp(t1.UTC()), "C15/zone/from-nano-is-utc")
	zz.Reach("C15/zone/done")
}
