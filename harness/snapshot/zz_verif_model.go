//go:build verif

package snapshot

// Under the engine DumpData/LoadData are redirected to this handle table: the gzip
// layer (klauspost deflate) is outside encoding reach and the top-level message codec
// is decided separately (C07/C08). Natively the real functions run.

var vBlobs []*Snapshot

func VDumpData(msg *Snapshot) ([]byte, DumpDataStats, error) {
	// freeze the top-level fields like Marshal does
	for _, d := range msg.Databases {
		d.Size()
	}
	cp := *msg
	vBlobs = append(vBlobs, &cp)
	return []byte{'B', byte(len(vBlobs))}, DumpDataStats{}, nil
}

func VLoadData(data []byte) (*Snapshot, error) {
	if len(data) != 2 || data[0] != 'B' || int(data[1]) == 0 || int(data[1]) > len(vBlobs) {
		return nil, ErrVCorrupt
	}
	src := vBlobs[data[1]-1]
	// a loaded snapshot is a fresh object graph over the same bytes
	cp := &Snapshot{FormatVersion: src.FormatVersion, CompatVersion: src.CompatVersion, Meta: src.Meta}
	for _, d := range src.Databases {
		nd := *d
		nd.cur = 0
		cp.Databases = append(cp.Databases, &nd)
	}
	return cp, nil
}

type vErr string

func (e vErr) Error() string { return string(e) }

// ErrVCorrupt is what the model returns for an undecodable blob.
var ErrVCorrupt error = vErr("corrupt blob")
