//go:build verif

package snapshot

import (
	zz "github.com/PowerDNS/lightningstream/internal/zzverif"
)

// The decoders on arbitrary bytes: no panic (every implicit bounds/nil check is an
// obligation), no loop beyond its unwinding budget, result is a value or an error.

func verifC08KV(n int) {
	b := zz.NondetBytes("b", n)
	var kv KV
	err := kv.Unmarshal(b)
	if err == nil {
		zz.Assert(len(kv.Key) <= n && len(kv.Value) <= n, "C08/kv/fields-within-input")
		zz.Reach("C08/kv/accepted")
	} else {
		zz.Reach("C08/kv/rejected")
	}
}

func verifC08DBI(n int) {
	b := zz.NondetBytes("b", n)
	d, err := NewDBIFromData(b)
	if err != nil {
		zz.Reach("C08/dbi/rejected")
		return
	}
	// full iteration, as the merge does
	for i := 0; i <= n+1; i++ {
		_, err := d.Next()
		if err != nil {
			zz.Reach("C08/dbi/iterated")
			return
		}
	}
	zz.Assert(false, "C08/dbi/iteration-terminates")
}

func verifC08Snapshot(n int) {
	b := zz.NondetBytes("b", n)
	var s Snapshot
	err := s.Unmarshal(b)
	if err != nil {
		zz.Reach("C08/snapshot/rejected")
		return
	}
	for _, d := range s.Databases {
		for i := 0; i <= n+1; i++ {
			if _, err := d.Next(); err != nil {
				break
			}
		}
	}
	zz.Reach("C08/snapshot/accepted")
}

func VerifC08KV()       { verifC08KV(zz.Shard(7)) }
func VerifC08DBI()      { verifC08DBI(zz.Shard(7)) }
func VerifC08Snapshot() { verifC08Snapshot(zz.Shard(6)) }

// thorough: one more byte at each entry point, sharded on the first byte's low bits
func VerifC08KV7() {
	b := zz.NondetBytes("b", 7)
	zz.Assume(int(b[0]&0x0f) == zz.Shard(16))
	var kv KV
	_ = kv.Unmarshal(b)
	zz.Reach("C08/kv7/end")
}

func VerifC08DBI7() {
	b := zz.NondetBytes("b", 7)
	zz.Assume(int(b[0]&0x0f) == zz.Shard(16))
	d, err := NewDBIFromData(b)
	if err == nil {
		for i := 0; i < 9; i++ {
			if _, err := d.Next(); err != nil {
				break
			}
		}
	}
	zz.Reach("C08/dbi7/end")
}

// vTagged11: 11 bytes: a one-byte tag chosen among the known and unknown fields of every
// wire type, followed by a 10-byte varint (continuation bit set on its first nine bytes, all
// other bits free), so lengths and values with bit 63 set are reached.
func vTagged11() []byte {
	tags := []byte{0x0a, 0x12, 0x18, 0x19, 0x20, 0x22, 0x2a, 0x28, 0x2d, 0x29}
	b := zz.NondetBytes("b", 11)
	zz.Assume(b[0] == tags[zz.Shard(len(tags))])
	for i := 1; i <= 9; i++ {
		zz.Assume(b[i]&0x80 != 0)
	}
	return b
}

func VerifC08KVLen11() {
	b := vTagged11()
	var kv KV
	_ = kv.Unmarshal(b)
	zz.Reach("C08/kv11/end")
}

func VerifC08DBILen11() {
	b := vTagged11()
	d, err := NewDBIFromData(b)
	if err == nil {
		for i := 0; i < 13; i++ {
			if _, err := d.Next(); err != nil {
				break
			}
		}
	}
	zz.Reach("C08/dbi11/end")
}
