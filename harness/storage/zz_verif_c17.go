//go:build verif

package storage

import (
	"context"

	zz "github.com/PowerDNS/lightningstream/internal/zzverif"
	"github.com/PowerDNS/simpleblob"
)

type vSt struct{ id int }

func (s *vSt) List(ctx context.Context, prefix string) (simpleblob.BlobList, error) { return nil, nil }
func (s *vSt) Load(ctx context.Context, name string) ([]byte, error)                { return nil, nil }
func (s *vSt) Store(ctx context.Context, name string, data []byte) error            { return nil }
func (s *vSt) Delete(ctx context.Context, name string) error                        { return nil }

// VerifC17GetGlobal: callers (two of them) asking for the global storage before it is set receives it once
// it is set; in both orders of set and get, and under every interleaving of the two.
func VerifC17GetGlobal() {
	st := &vSt{id: 7}
	var got, got2 simpleblob.Interface
	order := zz.Choice("order", 3)
	switch order {
	case 0: // set first
		SetGlobal(st)
		zz.Go("getter", func() { got = GetGlobal() })
	case 1: // get first: both getters block in wait() until the setter comes
		zz.Go("getter", func() { got = GetGlobal() })
		zz.Go("getter2", func() { got2 = GetGlobal() })
		zz.Settle()
		zz.Go("setter", func() { SetGlobal(st) })
	default: // all concurrently, any interleaving
		zz.Go("getter", func() { got = GetGlobal() })
		zz.Go("getter2", func() { got2 = GetGlobal() })
		zz.Go("setter", func() { SetGlobal(st) })
	}
	zz.WaitThreads("C17/getglobal/returns-once-set")
	zz.Assert(got == simpleblob.Interface(st), "C17/getglobal/returns-the-handle-that-was-set")
	if order != 0 {
		// every waiter is released, not only the first
		zz.Assert(got2 == simpleblob.Interface(st), "C17/getglobal/every-waiter-gets-the-handle")
	}
	zz.Assert(IsReady(), "C17/getglobal/ready-after-set")
	zz.Reach("C17/getglobal/done")
}
