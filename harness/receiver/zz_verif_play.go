//go:build verif

package receiver

import (
	"context"
	"sort"

	"github.com/PowerDNS/lightningstream/snapshot"
)

// VerifPrepare creates the downloaders of the given instances up front so that no
// downloader goroutine is ever spawned: the loop harnesses play the downloaders themselves.
func (r *Receiver) VerifPrepare(instances ...string) {
	r.mu.Lock()
	defer r.mu.Unlock()
	verifRetrying = map[string]bool{}
	for _, inst := range instances {
		if _, ok := r.downloadersByInstance[inst]; !ok {
			r.downloadersByInstance[inst] = &Downloader{r: r, l: r.l, c: r.c, instance: inst, lmdbname: r.lmdbname,
				last: snapshot.NameInfo{}, newSnapshotSignal: make(chan struct{}, 1)}
		}
	}
}

// verifRetrying: downloaders that are inside Run's retry loop (a Load failed and the
// downloader sleeps before trying the latest seen snapshot again).
var verifRetrying = map[string]bool{}

// VerifPlay lists the bucket (as Receiver.Run would) and plays one round of every
// downloader's Run loop, statement by statement: a downloader acts when it was notified or
// when it is still retrying after a failed load; it re-reads lastSeenByInstance, stops when
// the instance disappeared or the newest snapshot was already processed, and otherwise
// makes one LoadOnce attempt. Returns the number of deliveries.
func (r *Receiver) VerifPlay(ctx context.Context, list bool, includingOwn bool) int {
	if list {
		if err := r.RunOnce(ctx, includingOwn); err != nil {
			return 0
		}
	}
	r.mu.Lock()
	var insts []string
	for inst := range r.downloadersByInstance {
		insts = append(insts, inst)
	}
	r.mu.Unlock()
	sort.Strings(insts)
	n := 0
	for _, inst := range insts {
		r.mu.Lock()
		d := r.downloadersByInstance[inst]
		r.mu.Unlock()
		signalled := false
		select {
		case <-d.newSnapshotSignal:
			signalled = true
		default:
		}
		if !signalled && !verifRetrying[inst] {
			continue
		}
		verifRetrying[inst] = false
		r.mu.Lock()
		ni, exists := r.lastSeenByInstance[inst]
		r.mu.Unlock()
		if !exists {
			continue // "this instance no longer has any snapshots": wait for a signal
		}
		if ni.FullName == d.last.FullName {
			continue // already processed the most recent one
		}
		if err := d.LoadOnce(ctx, ni); err != nil {
			verifRetrying[inst] = true // sleep, then retry
			continue
		}
		d.last = ni
		n++
	}
	return n
}
