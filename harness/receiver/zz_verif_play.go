//go:build verif

package receiver

import (
	"context"
	"sort"

	"github.com/PowerDNS/lightningstream/snapshot"
)

// VerifPrepare creates the downloaders of the given instances up front so that no
// downloader goroutine is ever spawned: the loop harnesses play the downloaders themselves.
func (r *Receiver) VerifPrepare(instances ...string) {
	r.mu.Lock()
	defer r.mu.Unlock()
	for _, inst := range instances {
		if _, ok := r.downloadersByInstance[inst]; !ok {
			r.downloadersByInstance[inst] = &Downloader{r: r, l: r.l, c: r.c, instance: inst, lmdbname: r.lmdbname,
				last: snapshot.NameInfo{}, newSnapshotSignal: make(chan struct{}, 1)}
		}
	}
}

// VerifPlay lists the bucket (as Receiver.Run would) and plays one round of every
// downloader's loop body: the newest snapshot of every instance that was not delivered
// yet is downloaded and made available to Next(). Returns the number of deliveries.
func (r *Receiver) VerifPlay(ctx context.Context, list bool, includingOwn bool) int {
	if list {
		if err := r.RunOnce(ctx, includingOwn); err != nil {
			return 0
		}
	}
	r.mu.Lock()
	var insts []string
	for inst := range r.lastSeenByInstance {
		insts = append(insts, inst)
	}
	r.mu.Unlock()
	sort.Strings(insts)
	n := 0
	for _, inst := range insts {
		r.mu.Lock()
		d := r.downloadersByInstance[inst]
		ni := r.lastSeenByInstance[inst]
		r.mu.Unlock()
		if d == nil || ni.FullName == d.last.FullName {
			continue
		}
		if !includingOwn && inst == r.ownInstance {
			continue
		}
		// drain the notification like Run does
		select {
		case <-d.newSnapshotSignal:
		default:
		}
		if err := d.LoadOnce(ctx, ni); err == nil {
			d.last = ni
			n++
		}
	}
	return n
}
