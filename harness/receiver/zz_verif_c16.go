//go:build verif

package receiver

import (
	"context"
	"errors"
	"io"
	"sync"
	"time"

	"github.com/PowerDNS/lightningstream/config"
	zz "github.com/PowerDNS/lightningstream/internal/zzverif"
	"github.com/PowerDNS/lightningstream/snapshot"
	"github.com/PowerDNS/lightningstream/syncer/events"
	"github.com/PowerDNS/lightningstream/syncer/hooks"
	"github.com/PowerDNS/simpleblob"
	"github.com/sirupsen/logrus"
)

type vBucket struct {
	names    []string // sorted
	blobs    [][]byte
	failList int
	failLoad int
	mu       sync.Mutex
	onLoad   func() // called when a download has completed (the blob is now in memory)
}

var errInjected = errors.New("injected storage failure")

func (b *vBucket) List(ctx context.Context, prefix string) (simpleblob.BlobList, error) {
	if b.failList > 0 {
		b.failList--
		return nil, errInjected
	}
	var bl simpleblob.BlobList
	for i, n := range b.names {
		if len(n) >= len(prefix) && n[:len(prefix)] == prefix {
			bl = append(bl, simpleblob.Blob{Name: n, Size: int64(len(b.blobs[i]))})
		}
	}
	return bl, nil
}
func (b *vBucket) Load(ctx context.Context, name string) ([]byte, error) {
	if b.failLoad > 0 {
		b.failLoad--
		return nil, errInjected
	}
	for i, n := range b.names {
		if n == name {
			if b.onLoad != nil {
				b.mu.Lock()
				b.onLoad()
				b.mu.Unlock()
			}
			return b.blobs[i], nil
		}
	}
	return nil, errors.New("not found") // vanished between listing and download
}
func (b *vBucket) Store(ctx context.Context, name string, data []byte) error {
	pos := len(b.names)
	for i, n := range b.names {
		if n > name {
			pos = i
			break
		}
	}
	b.names = append(b.names, "")
	b.blobs = append(b.blobs, nil)
	copy(b.names[pos+1:], b.names[pos:])
	copy(b.blobs[pos+1:], b.blobs[pos:])
	b.names[pos], b.blobs[pos] = name, data
	return nil
}
func (b *vBucket) Delete(ctx context.Context, name string) error {
	for i, n := range b.names {
		if n == name {
			b.names = append(b.names[:i:i], b.names[i+1:]...)
			b.blobs = append(b.blobs[:i:i], b.blobs[i+1:]...)
			return nil
		}
	}
	return nil
}

func vGoodBlob(inst string) []byte {
	s := &snapshot.Snapshot{FormatVersion: 3, CompatVersion: 1}
	s.Meta.InstanceID = inst
	d, _, err := snapshot.DumpData(s)
	if err != nil {
		panic(err)
	}
	return d
}

func vName(inst string, n int) string {
	return "db__" + inst + "__20240101-00000" + string(rune('0'+n)) + "-000000000__GX.pb.gz"
}

// held returns how many tokens of a limit are currently out.
func vHeld(r *Receiver, download bool, limit int) int {
	if download {
		return limit - r.downloadSnapshotLimit.VerifFree()
	}
	return limit - r.decompressedSnapshotLimit.VerifFree()
}

// VerifC16: listing, newest-name selection, downloads with arbitrary outcomes, corrupt blobs,
// vanished snapshots and instances, token accounting under limits 1..2.
func VerifC16() {
	lg := logrus.New()
	lg.SetLevel(logrus.PanicLevel)
	b := &vBucket{}
	sh := zz.Shard(4)
	limDec := 1 + sh%2
	limDl := 1 + sh/2
	c := config.Config{MemoryDecompressedSnapshots: limDec, MemoryDownloadedSnapshots: limDl}
	r := New(b, c, "db", lg, "own", events.New(), hooks.New())
	ctx := context.Background()

	// bucket: instance a with two snapshots (the newer one good or corrupt), instance b with one,
	// an unparsable name, another database's snapshot
	aNewestCorrupt := zz.Choice("a.newest.corrupt", 2) == 1
	b.Store(ctx, vName("a", 1), vGoodBlob("a"))
	if aNewestCorrupt {
		b.Store(ctx, vName("a", 2), []byte("junk"))
	} else {
		b.Store(ctx, vName("a", 2), vGoodBlob("a"))
	}
	b.Store(ctx, vName("b", 1), vGoodBlob("b"))
	b.Store(ctx, "db__zzz.txt", []byte("x"))
	b.Store(ctx, "db2__a__20240101-000009-000000000__GX.pb.gz", vGoodBlob("a"))

	// downloaders are created up front so that RunOnce spawns no goroutine: the harness plays
	// the body of the downloader's retry loop itself (sequentially)
	for _, inst := range []string{"a", "b", "own"} {
		r.downloadersByInstance[inst] = &Downloader{r: r, l: lg, c: c, instance: inst, lmdbname: "db", newSnapshotSignal: make(chan struct{}, 1)}
	}
	b.failList = zz.Choice("list.fails", 2)
	err := r.RunOnce(ctx, true)
	if err != nil {
		zz.Assert(b.failList == 0, "C16/list/error-only-when-storage-fails")
		err = r.RunOnce(ctx, true) // the injected failure was consumed: retry like the loops do
	}
	zz.Assert(err == nil, "C16/list/retry-succeeds")
	zz.Assert(r.HasSnapshots(), "C16/list/has-snapshots")
	seen := r.SeenInstances()
	zz.Assert(len(seen) == 2, "C16/list/instances-of-this-database-only")
	zz.Assert(r.lastSeenByInstance["a"].FullName == vName("a", 2), "C16/list/newest-name-is-bytewise-last")
	zz.Assert(r.lastSeenByInstance["b"].FullName == vName("b", 1), "C16/list/newest-name-is-bytewise-last")
	da := r.downloadersByInstance["a"]
	db := r.downloadersByInstance["b"]
	zz.Assert(len(da.newSnapshotSignal) == 1 && len(db.newSnapshotSignal) == 1, "C16/list/downloader-notified")

	// the downloader of a: its retry loop, with an arbitrary transient Load failure
	b.failLoad = zz.Choice("load.fails", 2)
	delivered := 0
	attempts := 0
	for ; attempts < 4; attempts++ {
		ni := r.lastSeenByInstance["a"]
		if ni.FullName == da.last.FullName && delivered == 1 {
			break
		}
		lerr := da.LoadOnce(ctx, ni)
		zz.Assert(vHeld(r, true, limDl) == 0, "C16/tokens/download-token-released-on-every-exit")
		if lerr == nil {
			da.last = ni
			delivered = 1
			break
		}
		zz.Assert(vHeld(r, false, limDec) == 0, "C16/tokens/decompress-token-released-on-error")
		// between attempts the receiver lists again
		da.newSnapshotSignal = make(chan struct{}, 1)
		zz.Assert(r.RunOnce(ctx, true) == nil, "C16/list2/no-error")
	}
	zz.Assert(delivered == 1, "C16/retry/newest-decodable-snapshot-delivered")
	zz.Assert(attempts <= 2, "C16/retry/bounded-attempts")
	if aNewestCorrupt {
		_, marked := r.corruptSnapshots[vName("a", 2)]
		zz.Assert(marked, "C16/corrupt/marked")
		zz.Assert(r.lastSeenByInstance["a"].FullName == vName("a", 1), "C16/corrupt/previous-snapshot-promoted")
		zz.Assert(len(da.newSnapshotSignal) == 1, "C16/corrupt/downloader-notified-again")
		zz.Assert(r.snapshotsByInstance["a"].NameInfo.FullName == vName("a", 1), "C16/corrupt/previous-snapshot-delivered")
		zz.Reach("C16/corrupt-path")
	} else {
		zz.Assert(len(r.corruptSnapshots) == 0, "C16/corrupt/transient-failure-is-not-corruption")
		zz.Assert(r.snapshotsByInstance["a"].NameInfo.FullName == vName("a", 2), "C16/retry/newest-delivered")
	}
	zz.Assert(vHeld(r, true, limDl) == 0, "C16/tokens/download-token-released-on-every-exit")
	zz.Assert(vHeld(r, false, limDec) == delivered, "C16/tokens/one-decompress-token-per-waiting-snapshot")

	// a newer snapshot of a arrives before the merge loop took the waiting one: with limit 1 the
	// downloader must wait for a token (it would block), otherwise the old one is released
	b.Store(ctx, vName("a", 3), vGoodBlob("a"))
	_ = r.RunOnce(ctx, false)
	zz.Assert(r.lastSeenByInstance["a"].FullName == vName("a", 3), "C16/list/newest-name-is-bytewise-last")
	if limDec >= 2 {
		lerr3 := da.LoadOnce(ctx, r.lastSeenByInstance["a"])
		zz.Assert(lerr3 == nil, "C16/supersede/delivered")
		zz.Assert(vHeld(r, false, limDec) == 1, "C16/supersede/overwritten-snapshot-released")
		zz.Assert(r.snapshotsByInstance["a"].NameInfo.FullName == vName("a", 3), "C16/supersede/newest-waits")
		zz.Reach("C16/superseded")
		if zz.Choice("newestVanishes", 2) == 1 {
			// the newest blob is removed from the bucket while its snapshot still waits: an older one
			// becomes the instance's newest again and replaces the waiting one, which must be released
			_ = b.Delete(ctx, vName("a", 3))
			_ = r.RunOnce(ctx, false)
			older := r.lastSeenByInstance["a"]
			zz.Assert(older.FullName != vName("a", 3), "C16/older-after-vanish/listing-follows-the-bucket")
			lerr5 := da.LoadOnce(ctx, older)
			zz.Assert(lerr5 == nil, "C16/older-after-vanish/delivered")
			zz.Assert(vHeld(r, false, limDec) == 1, "C16/older-after-vanish/overwritten-snapshot-released")
			zz.Assert(vHeld(r, true, limDl) == 0, "C16/older-after-vanish/download-token-released")
			zz.Reach("C16/older-after-vanish")
			return
		}
	}

	// the merge loop takes what is waiting: every instance's snapshot is handed over once
	inst, upd := r.Next()
	zz.Assert(inst == "a", "C16/next/hands-over-waiting-snapshot")
	zz.Assert(upd.Snapshot != nil, "C16/next/snapshot-present")
	inst2, _ := r.Next()
	zz.Assert(inst2 == "", "C16/next/nothing-else-waiting")
	upd.Close()
	upd.Close() // closing twice releases once
	zz.Assert(vHeld(r, false, limDec) == 0, "C16/tokens/closed-update-releases-once")

	// instance b: delivered while a's was already merged
	lerrb := db.LoadOnce(ctx, r.lastSeenByInstance["b"])
	zz.Assert(lerrb == nil, "C16/other-instance/delivered")
	instb, updb := r.Next()
	zz.Assert(instb == "b", "C16/other-instance/handed-over")
	updb.Close()
	zz.Assert(vHeld(r, false, limDec) == 0 && vHeld(r, true, limDl) == 0, "C16/tokens/all-returned-at-the-end")

	// instance b's snapshots are cleaned away: it disappears from the seen instances
	b.Delete(ctx, vName("b", 1))
	_ = r.RunOnce(ctx, false)
	for _, n := range r.SeenInstances() {
		zz.Assert(n != "b", "C16/vanished-instance-disappears")
	}
	// a snapshot that vanished between listing and download is an error, tokens are returned
	b.Delete(ctx, vName("a", 3))
	lerr4 := da.LoadOnce(ctx, r.lastSeenByInstance["a"])
	zz.Assert(lerr4 != nil, "C16/vanished-snapshot-reported")
	zz.Assert(vHeld(r, false, limDec) == 0 && vHeld(r, true, limDl) == 0, "C16/tokens/all-returned-after-vanished-snapshot")
	zz.Reach("C16/done")
}

// VerifC16Concurrent (thread mode): three instances publish at once and their downloaders run
// concurrently under limits 1..2, the consumer taking a ready snapshot whenever all downloaders are blocked or done.
// A downloaded blob stays in memory from the end of Load until its downloader has decoded it,
// which it can only do after acquiring a decompression token. So at the end of every Load
//
//	blobs in memory >= completed Loads - decompression tokens ever acquired
//
// and the right-hand side must not exceed memory_downloaded_snapshots. (Decompression tokens
// ever acquired = tokens out now + tokens returned by the consumer; the consumer counts before
// it closes, which can only over-estimate: no false alarm.) Afterwards the consumer drains and
// every instance's snapshot is delivered: no downloader stays blocked.
func VerifC16Concurrent() {
	lg := logrus.New()
	lg.SetLevel(logrus.PanicLevel)
	b := &vBucket{}
	sh := zz.Shard(3)
	limDl := []int{1, 1, 2}[sh]
	limDec := []int{1, 2, 1}[sh]
	c := config.Config{MemoryDecompressedSnapshots: limDec, MemoryDownloadedSnapshots: limDl}
	r := New(b, c, "db", lg, "own", events.New(), hooks.New())
	ctx := context.Background()
	insts := []string{"a", "b", "c"}
	for _, inst := range insts {
		b.Store(ctx, vName(inst, 1), vGoodBlob(inst))
		r.downloadersByInstance[inst] = &Downloader{r: r, l: lg, c: c, instance: inst, lmdbname: "db", newSnapshotSignal: make(chan struct{}, 1)}
	}
	if err := r.RunOnce(ctx, false); err != nil {
		zz.Assert(false, "C16/concurrent/list")
		return
	}
	loaded, consumed, delivered := 0, 0, 0
	b.onLoad = func() {
		loaded++ // (threads only switch at synchronisation operations; natively the bucket serialises Loads)
		decEver := consumed + vHeld(r, false, limDec)
		zz.Assert(loaded-decEver <= limDl, "C16/concurrent/downloaded-blobs-within-limit")
		zz.Assert(vHeld(r, true, limDl) >= 1, "C16/concurrent/download-holds-a-token")
	}
	take := func() bool {
		inst, upd := r.Next()
		if inst == "" {
			return false
		}
		consumed++
		delivered++
		upd.Close()
		return true
	}
	for _, inst := range insts {
		d := r.downloadersByInstance[inst]
		ni := r.lastSeenByInstance[inst]
		zz.Go("dl-"+inst, func() {
			if err := d.LoadOnce(ctx, ni); err == nil {
				d.last = ni
			}
		})
	}
	// drain: whenever everything is blocked or done, the sync loop takes what is ready
	for round := 0; round < 4; round++ {
		zz.Settle()
		zz.Assert(vHeld(r, true, limDl) <= limDl && vHeld(r, false, limDec) <= limDec, "C16/concurrent/tokens-within-limits")
		take()
	}
	zz.WaitThreads("C16/concurrent/no-downloader-stuck")
	for take() {
	}
	zz.Assert(delivered == 3, "C16/concurrent/every-instance-delivered")
	zz.Assert(vHeld(r, true, limDl) == 0 && vHeld(r, false, limDec) == 0, "C16/concurrent/all-tokens-returned")
	zz.Reach("C16/concurrent/done")
}

// vLogHook runs fn when a log line with the given message is emitted (natively; under the
// engine logrus is a stub and the scheduler explores the interleavings instead).
type vLogHook struct {
	msg string
	fn  func()
}

func (h vLogHook) Levels() []logrus.Level { return logrus.AllLevels }
func (h vLogHook) Fire(e *logrus.Entry) error {
	if e.Message == h.msg {
		h.fn()
	}
	return nil
}

// VerifC16Vanish (thread mode, the real Downloader.Run goroutines): all snapshots of an instance
// vanish from the bucket while its downloader is still busy with the old one (the download
// fails), a listing reflects that, then the instance publishes again. The re-published
// snapshot is delivered whatever the interleaving of the listings with the downloader.
// Natively the interleaving the engine reports is the one where the second listing lands
// right after the downloader found the instance gone; the log line at that point is used to
// hold the downloader there (choreography for the replay only).
func VerifC16Vanish() {
	lg := logrus.New()
	lg.SetOutput(io.Discard)
	lg.SetLevel(logrus.WarnLevel)
	gone := make(chan struct{}, 1)
	lg.AddHook(vLogHook{msg: "this instance no longer has any snapshots", fn: func() {
		select {
		case gone <- struct{}{}:
		default:
		}
		time.Sleep(50 * time.Millisecond)
	}})
	b := &vBucket{}
	c := config.Config{MemoryDecompressedSnapshots: 3, MemoryDownloadedSnapshots: 3}
	r := New(b, c, "db", lg, "own", events.New(), hooks.New())
	ctx := &vtCtx{done: make(chan struct{})}
	bg := context.Background()
	b.Store(bg, vName("a", 1), vGoodBlob("a"))
	got := map[string]string{}
	drain := func() {
		for {
			inst, upd := r.Next()
			if inst == "" {
				return
			}
			got[inst] = upd.NameInfo.FullName
			upd.Close()
		}
	}
	_ = r.RunOnce(ctx, false) // a/1 seen, its downloader started and notified
	b.Delete(bg, vName("a", 1))
	_ = r.RunOnce(ctx, false) // instance a is gone from the listing
	zz.NativeWait(gone, 500*time.Millisecond)
	b.Store(bg, vName("a", 2), vGoodBlob("a"))
	_ = r.RunOnce(ctx, false) // instance a is back with a new snapshot
	for round := 0; round < 2; round++ {
		zz.Settle()
		drain()
		_ = r.RunOnce(ctx, false)
	}
	zz.Settle()
	drain()
	zz.Assert(got["a"] == vName("a", 2), "C16/vanish/republished-snapshot-delivered")
	close(ctx.done)
	zz.WaitThreads("C16/vanish/downloaders-exit-on-cancel")
	zz.Reach("C16/vanish/done")
}
