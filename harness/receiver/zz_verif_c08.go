//go:build verif

package receiver

import (
	"context"
	"time"

	"github.com/PowerDNS/lightningstream/config"
	zz "github.com/PowerDNS/lightningstream/internal/zzverif"
	"github.com/PowerDNS/lightningstream/syncer/events"
	"github.com/PowerDNS/lightningstream/syncer/hooks"
	"github.com/sirupsen/logrus"
)

// vtCtx is a cancellable context for thread-mode harnesses.
type vtCtx struct{ done chan struct{} }

func (c *vtCtx) Deadline() (time.Time, bool) { return time.Time{}, false }
func (c *vtCtx) Done() <-chan struct{}       { return c.done }
func (c *vtCtx) Err() error {
	select {
	case <-c.done:
		return context.Canceled
	default:
		return nil
	}
}
func (c *vtCtx) Value(key any) any { return nil }

// VerifC08RunCorrupt (thread mode): the real Receiver.RunOnce spawns the real Downloader.Run
// goroutines. Instance a's newest blob is undecodable (arbitrary bytes); an older decodable
// snapshot exists; optionally a newer decodable one is published afterwards. The corrupt blob
// is ignored from then on and the newest decodable snapshot of the instance is delivered; the
// other instance is delivered throughout; nothing hangs: after cancellation all downloaders exit.
func VerifC08RunCorrupt() {
	lg := logrus.New()
	lg.SetLevel(logrus.PanicLevel)
	b := &vBucket{}
	c := config.Config{MemoryDecompressedSnapshots: 3, MemoryDownloadedSnapshots: 3}
	r := New(b, c, "db", lg, "own", events.New(), hooks.New())
	ctx := &vtCtx{done: make(chan struct{})}
	bg := context.Background()

	scenario := zz.Shard(3)
	junk := zz.NondetBytes("junk", 3) // neither a gzip stream nor a model handle
	b.Store(bg, vName("a", 1), vGoodBlob("a"))
	b.Store(bg, vName("b", 1), vGoodBlob("b"))
	if scenario != 1 {
		b.Store(bg, vName("a", 2), junk) // corrupt newest present from the start
	}
	b.failLoad = zz.Choice("load.fails", 2)
	got := map[string]string{}
	drain := func() {
		for {
			inst, upd := r.Next()
			if inst == "" {
				return
			}
			got[inst] = upd.NameInfo.FullName
			upd.Close()
		}
	}
	for round := 0; round < 3; round++ {
		if err := r.RunOnce(ctx, false); err != nil {
			zz.Assert(false, "C08/run/list")
		}
		zz.Settle()
		drain()
		if round == 0 && scenario == 1 {
			// the good snapshot was delivered first; now a corrupt newer one appears
			zz.Assert(got["a"] == vName("a", 1), "C08/run/older-delivered-first")
			b.Store(bg, vName("a", 2), junk)
		}
	}
	zz.Assert(got["a"] == vName("a", 1), "C08/run/newest-decodable-snapshot-delivered")
	zz.Assert(got["b"] == vName("b", 1), "C08/run/other-instance-unaffected")
	zz.Assert(r.ignoredFilenames[vName("a", 2)], "C08/run/corrupt-blob-ignored-from-then-on")
	if scenario == 2 {
		// a newer decodable snapshot is published: it is delivered
		b.Store(bg, vName("a", 3), vGoodBlob("a"))
		for round := 0; round < 2; round++ {
			_ = r.RunOnce(ctx, false)
			zz.Settle()
			drain()
		}
		zz.Assert(got["a"] == vName("a", 3), "C08/run/newer-snapshot-after-corrupt-delivered")
	}
	close(ctx.done)
	zz.WaitThreads("C08/run/downloaders-exit-on-cancel")
	zz.Assert(vHeld(r, true, 3) == 0 && vHeld(r, false, 3) == 0, "C08/run/no-token-leaked")
	zz.Reach("C08/run/done")
}
