//go:build verif

package climit

import (
	zz "github.com/PowerDNS/lightningstream/internal/zzverif"
)

// VerifC17Release: a token can be released from any goroutine any number of times: it is
// returned exactly once and nobody blocks on the full channel.
func VerifC17Release() {
	limit := 1 + zz.Choice("limit", 2)
	cl := New("db", "x", limit, nil)
	t1 := cl.Acquire()
	zz.Assert(cl.VerifFree() == limit-1, "C17/release/acquire-takes-one")
	zz.Go("r1", func() { t1.Release(); t1.Release() })
	zz.Go("r2", func() { t1.Release() })
	zz.WaitThreads("C17/release/never-blocks")
	zz.Assert(cl.VerifFree() == limit, "C17/release/returned-exactly-once")
	// and the limit can be taken again completely
	for i := 0; i < limit; i++ {
		cl.Acquire()
	}
	zz.Assert(cl.VerifFree() == 0, "C17/release/limit-available-again")
	zz.Reach("C17/release/done")
}
