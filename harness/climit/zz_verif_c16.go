//go:build verif

package climit

// VerifFree returns the number of tokens currently available (harness accessor).
func (cl *ConcurrencyLimit) VerifFree() int { return len(cl.ch) }
