//go:build verif

package limitscanner

import (
	"bytes"

	zz "github.com/PowerDNS/lightningstream/internal/zzverif"
	"github.com/PowerDNS/lmdb-go/lmdb"
)

// VerifC13Resume: a scan chopped into slices of 1..2 records with an arbitrary application
// write between two slices: every entry that stayed unchanged is scanned exactly once, and
// everything scanned is a current entry.
func VerifC13Resume() {
	env := zz.NewEnv()
	keys := [][]byte{[]byte("b"), []byte("d"), []byte("f")}
	vals := make([][]byte, 3)
	limit := 1 + zz.Choice("limit", 2)
	changeAfter := 1 + zz.Choice("change.after.slice", 2)
	change := zz.Choice("change", 6)
	err := env.Update(func(txn *lmdb.Txn) error {
		dbi, err := txn.OpenDBI("d", lmdb.Create)
		if err != nil {
			return err
		}
		for i := range keys {
			vals[i] = zz.NondetBytes("v"+string(rune('0'+i)), 1)
			if err := txn.Put(dbi, keys[i], vals[i], 0); err != nil {
				return err
			}
		}
		return nil
	})
	if err != nil {
		return
	}
	touched := make([]bool, 3)
	scanned := make([]int, 3)
	var last LimitCursor
	for slice := 1; slice <= 6; slice++ {
		limitReached := false
		err := env.Update(func(txn *lmdb.Txn) error {
			dbi, err := txn.OpenDBI("d", 0)
			if err != nil {
				return err
			}
			ls, err := NewLimitScanner(Options{Txn: txn, DBI: dbi, LimitRecords: limit, Last: last})
			if err != nil {
				return err
			}
			defer ls.Close()
			for ls.Scan() {
				k, v := ls.Key(), ls.Val()
				cur, gerr := txn.Get(dbi, k)
				zz.Assert(gerr == nil && bytes.Equal(cur, v), "C13/scan/scanned-entry-is-current")
				for i := range keys {
					if bytes.Equal(k, keys[i]) && bytes.Equal(v, vals[i]) {
						scanned[i]++
					}
				}
			}
			last, limitReached = ls.Cursor()
			return ls.Err()
		})
		zz.Assert(err == nil, "C13/scan/no-error")
		if !limitReached {
			break
		}
		if slice == changeAfter {
			// the application commits between two slices, at or next to the resume key
			lk := last.key
			_ = env.Update(func(txn *lmdb.Txn) error {
				dbi, _ := txn.OpenDBI("d", 0)
				switch change {
				case 1: // delete the resume key
					for i := range keys {
						if bytes.Equal(keys[i], lk) {
							touched[i] = true
						}
					}
					return txn.Del(dbi, lk, nil)
				case 2: // overwrite the resume key
					for i := range keys {
						if bytes.Equal(keys[i], lk) {
							touched[i] = true
						}
					}
					return txn.Put(dbi, lk, []byte{'X', 'Y'}, 0)
				case 3: // insert right after the resume key
					return txn.Put(dbi, append(append([]byte{}, lk...), 'a'), []byte("n"), 0)
				case 4: // insert right before the resume key
					return txn.Put(dbi, []byte{lk[0] - 1}, []byte("n"), 0)
				case 5: // delete the key after the resume key
					for i := range keys {
						if bytes.Compare(keys[i], lk) > 0 {
							touched[i] = true
							return txn.Del(dbi, keys[i], nil)
						}
					}
				}
				return nil
			})
		}
		zz.Assert(slice < 6, "C13/scan/terminates")
	}
	for i := range keys {
		if !touched[i] {
			zz.Assert(scanned[i] == 1, "C13/scan/unchanged-entry-scanned-exactly-once")
		}
	}
	zz.Reach("C13/resume/done")
}
