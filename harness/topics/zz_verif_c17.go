//go:build verif

package topics

import (
	"context"
	"errors"

	zz "github.com/PowerDNS/lightningstream/internal/zzverif"
)

// VerifC17TopicDelivery: one publisher, two subscribers that receive: every value is delivered
// to every subscriber, nobody blocks forever, Close is idempotent.
func VerifC17TopicDelivery() {
	t := New[int]()
	s1 := t.Subscribe(false)
	s2 := t.Subscribe(zz.Choice("sendlast", 2) == 1)
	ctx := context.Background()
	var g1, g2 int
	zz.Go("pub", func() { t.Publish(5) })
	zz.Go("sub1", func() { g1, _ = s1.Next(ctx); s1.Close(); s1.Close() })
	zz.Go("sub2", func() { g2, _ = s2.Next(ctx); s2.Close() })
	zz.WaitThreads("C17/topics/delivery-no-deadlock")
	zz.Assert(g1 == 5 && g2 == 5, "C17/topics/delivered-to-every-subscriber")
	v, ok := t.Last()
	zz.Assert(ok && v == 5, "C17/topics/last-value")
	zz.Reach("C17/topics/delivery/done")
}

// VerifC17TopicCloseDuringDelivery: a subscriber closes its subscription instead of receiving
// while the publisher is delivering to it: neither the publisher nor the subscriber is wedged.
// Phased variant (replayable natively): the first thread runs until it blocks or ends.
func VerifC17TopicCloseDuringDelivery() {
	t := New[int]()
	s := t.Subscribe(false)
	if zz.Choice("order", 2) == 0 {
		zz.Go("pub", func() { t.Publish(1) })
		zz.Settle()
		zz.Go("closer", func() { s.Close() })
	} else {
		zz.Go("closer", func() { s.Close() })
		zz.Settle()
		zz.Go("pub", func() { t.Publish(1) })
	}
	zz.WaitThreads("C17/topics/close-during-delivery-wedges-nobody")
	zz.Reach("C17/topics/close/done")
}

// VerifC17TopicCloseAnyInterleaving: the same under every interleaving (not phased).
func VerifC17TopicCloseAnyInterleaving() {
	t := New[int]()
	s := t.Subscribe(false)
	zz.Go("pub", func() { t.Publish(1) })
	zz.Go("closer", func() { s.Close() })
	zz.WaitThreads("C17/topics/close-any-interleaving-wedges-nobody")
	zz.Reach("C17/topics/closeany/done")
}

// VerifC17TopicHandleError: Handle returns when its callback fails, while the next publish is
// already in flight: the publisher is not wedged.
func VerifC17TopicHandleError() {
	t := New[int]()
	ctx := context.Background()
	var herr error
	zz.Go("handler", func() {
		herr = t.Handle(ctx, func(v int) error { return errors.New("callback failed") })
	})
	zz.Settle() // the handler is subscribed and waits for a value
	zz.Go("pub", func() { t.Publish(1); t.Publish(2) })
	zz.WaitThreads("C17/topics/handle-error-wedges-nobody")
	zz.Assert(herr != nil, "C17/topics/handle-returns-callback-error")
	zz.Reach("C17/topics/handle/done")
}

// VerifC17TopicCloseWhileDeliveringToOthers: several subscribers; the publisher is busy
// delivering to slow subscribers when another subscriber closes; afterwards the slow ones
// receive. Nobody may be wedged. Phased (replayable): each phase runs until every thread is
// blocked or done. Natively the scenario is repeated because the delivery order follows Go's
// random map iteration order.
func VerifC17TopicCloseWhileDeliveringToOthers() {
	for round := 0; round < zz.NativeRepeat(12); round++ {
		t := New[int]()
		ctx := context.Background()
		slow := []*Subscription[int]{t.Subscribe(false), t.Subscribe(false)}
		closing := t.Subscribe(false)
		zz.Go("pub", func() { t.Publish(1) })
		zz.Settle() // the publisher holds the topic lock and is blocked on some subscriber
		zz.Go("closer", func() { closing.Close() })
		zz.Settle()
		for _, s := range slow {
			s := s
			zz.Go("slow", func() { _, _ = s.Next(ctx); s.Close() })
		}
		zz.WaitThreads("C17/topics/close-while-delivering-to-others-wedges-nobody")
	}
	zz.Reach("C17/topics/closeothers/done")
}
