//go:build verif

package syncer

import (
	"bytes"
	"context"

	zz "github.com/PowerDNS/lightningstream/internal/zzverif"
	"github.com/PowerDNS/lightningstream/lmdbenv/header"
	"github.com/PowerDNS/lightningstream/snapshot"
	"github.com/PowerDNS/lmdb-go/lmdb"
)

// ----- C01: bounded end-to-end convergence scenarios over the real SendOnce / LoadOnce -----

type vInst struct {
	name   string
	env    *lmdb.Env
	s      *Syncer
	lastTS uint64 // native: timestamp of this instance's last own write (monotone)
	latest []byte // newest snapshot this instance uploaded
}

type vWorld struct {
	native bool
	st     *vStore
	inst   []*vInst
	maxTS  uint64 // native: maximum timestamp ever written
	wrote  bool
}

func vNewWorld(native bool, n int) *vWorld {
	w := &vWorld{native: native, st: &vStore{}}
	for i := 0; i < n; i++ {
		name := "i" + string(rune('a'+i))
		env := zz.NewEnv()
		err := env.Update(func(txn *lmdb.Txn) error {
			_, err := txn.OpenDBI("d", lmdb.Create)
			return err
		})
		if err != nil {
			panic(err)
		}
		w.inst = append(w.inst, &vInst{name: name, env: env, s: vFullSyncer(env, w.st, name, native, nil)})
	}
	return w
}

// write: the application of instance i puts or deletes key "a".
func (w *vWorld) write(i int, tag string) {
	in := w.inst[i]
	del := zz.NondetBool(tag + ".del")
	vl := 1
	if w.native {
		vl = zz.Choice(tag+".len", 2)
	}
	val := zz.NondetBytes(tag+".val", vl)
	var ts uint64
	if w.native {
		ts = zz.NondetU64(tag + ".ts")
		zz.Assume(ts > in.lastTS) // an application's own writes are monotone per key
		in.lastTS = ts
		w.maxTS = zz.IteU64(ts > w.maxTS, ts, w.maxTS)
	}
	if w.native {
		w.wrote = true // (in shadow mode a put that is deleted again before the next capture leaves no trace)
	}
	err := in.env.Update(func(txn *lmdb.Txn) error {
		dbi, err := txn.OpenDBI("d", 0)
		if err != nil {
			return err
		}
		if w.native {
			var fl uint8
			v := val
			if del {
				fl, v = 1, nil
			}
			return txn.Put(dbi, []byte("a"), vStoredBytes(ts, uint64(txn.ID()), fl, 0, nil, v), 0)
		}
		if del {
			err := txn.Del(dbi, []byte("a"), nil)
			if lmdb.IsNotFound(err) {
				return nil
			}
			return err
		}
		return txn.Put(dbi, []byte("a"), val, 0)
	})
	zz.Assert(err == nil, "harness/write")
}

func (w *vWorld) upload(i int) {
	in := w.inst[i]
	zz.ClockStep()
	_, err := in.s.SendOnce(context.Background(), in.env)
	zz.Assert(err == nil, "C01/upload-no-error")
	if err == nil {
		_, in.latest = w.st.lastStored()
	}
}

// merge: instance i merges the newest snapshot of instance j (if it has one).
func (w *vWorld) merge(i, j int) {
	if w.inst[j].latest == nil {
		return
	}
	in := w.inst[i]
	msg, err := snapshot.LoadData(w.inst[j].latest)
	if err != nil {
		zz.Assert(false, "C01/snapshot-decodes")
		return
	}
	zz.ClockStep()
	upd := snapshot.Update{Snapshot: msg, NameInfo: snapshot.NameInfo{Kind: snapshot.KindSnapshot, InstanceID: w.inst[j].name}}
	_, _, err = in.s.LoadOnce(context.Background(), in.env, w.inst[j].name, upd, header.TxnID(0))
	zz.Assert(err == nil, "C01/merge-no-error")
}

// logical content of key a on instance i: (present, ts, deleted, value)
func (w *vWorld) content(i int) (bool, uint64, bool, []byte) {
	name := "d"
	if !w.native {
		name = "_sync_shadow_d"
	}
	d, _ := zz.Dump(w.inst[i].env, name)
	b := vFind(d, []byte("a"))
	if b == nil {
		return false, 0, false, nil
	}
	ts, del, val := vLogical(b)
	return true, ts, del, val
}

func (w *vWorld) appView(i int) (bool, []byte) {
	d, _ := zz.Dump(w.inst[i].env, "d")
	for _, e := range d {
		if bytes.Equal(e.K, []byte("a")) {
			if w.native {
				_, del, val := vLogical(e.V)
				return !del, val
			}
			return true, e.V
		}
	}
	return false, nil
}

// closing phase: in turn, every instance uploads and every other instance merges that
// snapshot; after one round every instance has merged the newest snapshot of every other
// (a second round is run for three instances, where the relay needs it).
func (w *vWorld) settle() {
	n := len(w.inst)
	for round := 0; round < n-1; round++ {
		for i := 0; i < n; i++ {
			w.upload(i)
			for j := 0; j < n; j++ {
				if j != i {
					w.merge(j, i)
				}
			}
		}
	}
}

func (w *vWorld) checkConverged(tag string) {
	p0, ts0, del0, val0 := w.content(0)
	a0, av0 := w.appView(0)
	for i := 1; i < len(w.inst); i++ {
		p, ts, del, val := w.content(i)
		zz.Assert(p == p0, "C01/"+tag+"/same-presence")
		if p && p0 {
			zz.Assert(ts == ts0, "C01/"+tag+"/same-timestamp")
			zz.Assert(del == del0, "C01/"+tag+"/same-deleted-flag")
			zz.Assert(bytes.Equal(val, val0), "C01/"+tag+"/same-value")
		}
		a, av := w.appView(i)
		zz.Assert(a == a0 && bytes.Equal(av, av0), "C01/"+tag+"/same-application-view")
	}
	if w.wrote {
		zz.Assert(p0, "C01/"+tag+"/written-key-present-everywhere")
		if w.native && p0 {
			zz.Assert(ts0 == w.maxTS, "C01/"+tag+"/winner-has-the-highest-timestamp")
		}
	}
}

// verifC01Ops: K arbitrary operations of two instances, then the closing phase.
func verifC01Ops(native bool, k int) {
	w := vNewWorld(native, 2)
	for step := 0; step < k; step++ {
		var op int
		if step == 0 {
			op = zz.Shard(6)
		} else {
			op = zz.Choice("op"+string(rune('0'+step)), 6)
		}
		tag := "w" + string(rune('0'+step))
		switch op {
		case 0:
			w.write(0, tag)
		case 1:
			w.write(1, tag)
		case 2:
			w.upload(0)
		case 3:
			w.upload(1)
		case 4:
			w.merge(0, 1)
		default:
			w.merge(1, 0)
		}
	}
	w.settle()
	w.checkConverged("ops")
	zz.Reach("C01/ops/done")
}

func VerifC01OpsNative()  { verifC01Ops(true, 2) }
func VerifC01OpsShadow()  { verifC01Ops(false, 2) }
func VerifC01Ops3Native() { verifC01Ops(true, 3) }
func VerifC01Ops3Shadow() { verifC01Ops(false, 3) }

// VerifC01CrossNative: both instances write (equal timestamps included), cross exchange in
// both orders, second round.
func verifC01Cross(native bool) {
	w := vNewWorld(native, 2)
	w.write(0, "wa")
	w.write(1, "wb")
	if zz.Choice("order", 2) == 0 {
		w.upload(0)
		w.upload(1)
		w.merge(0, 1)
		w.merge(1, 0)
	} else {
		w.upload(1)
		w.merge(0, 1)
		w.upload(0)
		w.merge(1, 0)
	}
	w.settle()
	w.checkConverged("cross")
	zz.Reach("C01/cross/done")
}

func VerifC01CrossNative() { verifC01Cross(true) }
func VerifC01CrossShadow() { verifC01Cross(false) }

// VerifC01Relay3: three instances, A -> B -> C relay with C's own (possibly older) write.
func VerifC01Relay3Native() {
	w := vNewWorld(true, 3)
	w.write(0, "wa")
	w.write(2, "wc")
	w.upload(0)
	w.merge(1, 0)
	w.upload(1)
	w.merge(2, 1)
	w.settle()
	w.checkConverged("relay")
	zz.Reach("C01/relay/done")
}
