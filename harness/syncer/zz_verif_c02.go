//go:build verif

package syncer

import (
	"bytes"

	zz "github.com/PowerDNS/lightningstream/internal/zzverif"
	"github.com/PowerDNS/lightningstream/lmdbenv/header"
	"github.com/PowerDNS/lightningstream/snapshot"
)

// ----- shared helpers for the merge-level harnesses (C02, C04-1, C10, C14) -----

// vIncoming is one snapshot entry as it arrives in a remote snapshot.
type vIncoming struct {
	ts    uint64
	flags uint32
	val   []byte
}

// vNondetIncoming returns an arbitrary incoming version with a value of at most maxVal bytes.
// Validity (docs/schema-native.md): a version carrying the deleted flag has an empty value.
func vNondetIncoming(name string, maxVal int) vIncoming {
	n := zz.Choice(name+".len", maxVal+1)
	v := vIncoming{
		ts:    zz.NondetU64(name + ".ts"),
		flags: zz.NondetU32(name + ".flags"),
		val:   zz.NondetBytes(name+".val", n),
	}
	if n > 0 {
		zz.Assume(v.flags&1 == 0)
	}
	return v
}

// vNondetIncomingRaw is vNondetIncoming without the validity assumption.
func vNondetIncomingRaw(name string, maxVal int) vIncoming {
	n := zz.Choice(name+".len", maxVal+1)
	return vIncoming{ts: zz.NondetU64(name + ".ts"), flags: zz.NondetU32(name + ".flags"), val: zz.NondetBytes(name+".val", n)}
}

// vDeleted is the documented meaning of an incoming version under format fv.
func (v vIncoming) deleted(fv uint32) bool {
	return zz.Or(v.flags&1 != 0, fv < 2 && len(v.val) == 0)
}

// vMerge runs the real merge routine for one incoming entry over the stored bytes.
// The snapshot entry is handed to the iterator directly (the DBI codec is C07's subject).
func vMerge(stored []byte, in vIncoming, fv uint32, cutoff, defTS uint64, pad bool) []byte {
	it, err := NewNativeIterator(fv, 1, nil, header.Timestamp(defTS), 7, header.Timestamp(cutoff))
	if err != nil {
		zz.Assert(false, "harness/iterator")
		return nil
	}
	it.HeaderPaddingBlock = pad
	it.curKV = snapshot.KV{Key: []byte{'k'}, Value: in.val, TimestampNano: in.ts, Flags: in.flags}
	res, err := it.Merge(stored)
	zz.Assert(err == nil, "C02/merge-error")
	if res == nil {
		return nil
	}
	out := make([]byte, len(res))
	copy(out, res)
	return out
}

// vStoredBytes writes a stored value by hand, following docs/schema-native.md.
func vStoredBytes(ts, txn uint64, flags uint8, numExtra int, extra []byte, val []byte) []byte {
	b := make([]byte, 24+8*numExtra+len(val))
	for i := 0; i < 8; i++ {
		b[i] = byte(ts >> (56 - 8*uint(i)))
		b[8+i] = byte(txn >> (56 - 8*uint(i)))
	}
	b[17] = flags
	b[22] = byte(numExtra >> 8)
	b[23] = byte(numExtra)
	copy(b[24:], extra)
	copy(b[24+8*numExtra:], val)
	return b
}

// vNondetStored returns an arbitrary stored value: header with arbitrary timestamp,
// txn id, flag byte (unknown bits included), 0..maxExtra extension blocks, value <= maxVal.
// A stored deleted entry has an empty value (guaranteed by Lightning Stream's own writes, C14).
func vNondetStored(name string, maxVal, maxExtra int) []byte {
	n := zz.Choice(name+".len", maxVal+1)
	ne := 0
	if maxExtra > 0 {
		ne = zz.Choice(name+".extra", maxExtra+1)
	}
	fl := zz.NondetU8(name + ".flags")
	if n > 0 {
		zz.Assume(fl&1 == 0)
	}
	return vStoredBytes(zz.NondetU64(name+".ts"), zz.NondetU64(name+".txn"), fl, ne,
		zz.NondetBytes(name+".ext", 8*ne), zz.NondetBytes(name+".val", n))
}

// vLogical is an independent reader of the documented header layout.
func vLogical(b []byte) (ts uint64, del bool, val []byte) {
	for i := 0; i < 8; i++ {
		ts = ts<<8 | uint64(b[i])
	}
	n := int(b[22])<<8 | int(b[23])
	return ts, b[17]&1 != 0, b[24+8*n:]
}

// vSameLogical compares two stored values by logical content (nil = absent).
func vSameLogical(a, b []byte) bool {
	if a == nil || b == nil {
		return a == nil && b == nil
	}
	ta, da, va := vLogical(a)
	tb, db, vb := vLogical(b)
	return zz.And(ta == tb, zz.And(da == db, bytes.Equal(va, vb)))
}

// vIsLogical checks that stored bytes r carry exactly (ts, del, val).
func vIsLogical(r []byte, ts uint64, del bool, val []byte) bool {
	tr, dr, vr := vLogical(r)
	// a deleted entry has an empty value
	return zz.And(tr == ts, zz.And(dr == del, zz.Or(zz.And(del, len(vr) == 0), zz.And(!del, bytes.Equal(vr, val)))))
}

func vFormat() uint32 { return uint32(1 + zz.Choice("fv", 3)) }

// ----- C02 -----

// VerifC02Pair: idempotence and commutativity of the real merge on pairs, cutoff 0.
func VerifC02Pair() { verifC02Pair(1) }

// VerifC02Pair2 is the thorough variant (values up to 2 bytes).
func VerifC02Pair2() { verifC02Pair(2) }

func verifC02Pair(maxVal int) {
	// every snapshot carries its own format version (instances run different releases)
	fva := vFormat()
	fvb := uint32(1 + zz.Choice("fvb", 3))
	a := vNondetIncoming("a", maxVal)
	b := vNondetIncoming("b", maxVal)
	sa := vMerge(nil, a, fva, 0, 0, false)
	sb := vMerge(nil, b, fvb, 0, 0, false)
	zz.Assert(sa != nil && sb != nil, "C02/absent-add")
	if sa == nil || sb == nil {
		return
	}
	saa := vMerge(sa, a, fva, 0, 0, false)
	zz.Assert(bytes.Equal(saa, sa), "C02/idempotent")
	sab := vMerge(sa, b, fvb, 0, 0, false)
	sba := vMerge(sb, a, fva, 0, 0, false)
	same := vSameLogical(sab, sba)
	// known finding F3 is the equal-timestamp case with deleted vs. live-empty
	eqts := a.ts == b.ts
	zz.Assert(zz.Or(eqts, same), "C02/commute/different-ts")
	tie := zz.And(eqts, a.deleted(fva) != b.deleted(fvb))
	zz.Assert(zz.Or(!eqts, zz.Or(tie, same)), "C02/commute/equal-ts-same-liveness")
	zz.Assert(zz.Or(!tie, same), "C02/commute/equal-ts-deleted-vs-live")
	zz.Reach("C02/pair/end")
}

// VerifC02Triple: all six merge orders of three versions agree (associativity +
// commutativity at the level of logical content), cutoff 0.
func VerifC02Triple() {
	fvs := []uint32{vFormat(), uint32(1 + zz.Choice("fvb", 3)), uint32(1 + zz.Choice("fvc", 3))}
	vs := []vIncoming{vNondetIncoming("a", 1), vNondetIncoming("b", 1), vNondetIncoming("c", 1)}
	orders := [][3]int{{0, 1, 2}, {0, 2, 1}, {1, 0, 2}, {1, 2, 0}, {2, 0, 1}, {2, 1, 0}}
	var first []byte
	allSame := true
	for i, o := range orders {
		var s []byte
		for _, k := range o {
			s = vMerge(s, vs[k], fvs[k], 0, 0, false)
		}
		if i == 0 {
			first = s
		} else {
			allSame = zz.And(allSame, vSameLogical(first, s))
		}
	}
	// split by whether an equal-timestamp deleted-vs-live pair is present (F3)
	tie := false
	for i := 0; i < 3; i++ {
		for j := i + 1; j < 3; j++ {
			tie = zz.Or(tie, zz.And(vs[i].ts == vs[j].ts, vs[i].deleted(fvs[i]) != vs[j].deleted(fvs[j])))
		}
	}
	zz.Assert(zz.Or(tie, allSame), "C02/orders/no-liveness-tie")
	zz.Assert(zz.Or(!tie, allSame), "C02/orders/equal-ts-deleted-vs-live")
	zz.Reach("C02/triple/end")
}

// VerifC02Step: one merge step from an arbitrary stored value: never backwards,
// untouched bytes when the incoming version does not win; all cutoffs, all formats.
func VerifC02Step() { verifC02Step(1, 1) }

// VerifC02Step2 is the thorough variant.
func VerifC02Step2() { verifC02Step(2, 2) }

func verifC02Step(maxVal, maxExtra int) {
	fv := vFormat()
	cutoff := zz.NondetU64("cutoff")
	pad := zz.NondetBool("pad")
	in := vNondetIncoming("in", maxVal)
	inDel := in.deleted(fv)
	if zz.Choice("stored", 2) == 0 {
		// absent
		r := vMerge(nil, in, fv, cutoff, 0, pad)
		stale := zz.And(inDel, in.ts < cutoff)
		if r == nil {
			zz.Assert(stale, "C02/absent/dropped-only-if-stale-marker")
			zz.Reach("C02/step/absent-dropped")
			return
		}
		zz.Assert(!stale, "C04/stale-marker-not-recreated")
		zz.Assert(vIsLogical(r, in.ts, inDel, in.val), "C02/absent/added-as-is")
		zz.Reach("C02/step/absent-added")
		return
	}
	s := vNondetStored("s", maxVal, maxExtra)
	sts, sdel, sval := vLogical(s)
	r := vMerge(s, in, fv, cutoff, 0, pad)
	zz.Assert(r != nil, "C02/present/never-removed")
	if r == nil {
		return
	}
	rts, _, _ := vLogical(r)
	untouched := bytes.Equal(r, s)
	zz.Assert(zz.Or(rts == sts, rts == in.ts), "C02/ts-from-inputs")
	zz.Assert(rts >= sts, "C02/no-regression/ts")
	// lower incoming timestamp: stored bytes untouched
	zz.Assert(zz.Implies(in.ts < sts, untouched), "C02/older-incoming/untouched")
	// higher incoming timestamp: logical content of the incoming version
	zz.Assert(zz.Implies(in.ts > sts, vIsLogical(r, in.ts, inDel, in.val)), "C02/newer-incoming/wins")
	// equal: one of the two
	isIn := vIsLogical(r, in.ts, inDel, in.val)
	zz.Assert(zz.Implies(in.ts == sts, zz.Or(untouched, isIn)), "C02/equal-ts/one-of-two")
	// equal timestamps and same logical content: untouched (C10)
	sameContent := zz.And(in.ts == sts, zz.And(sdel == inDel, zz.Or(sdel, bytes.Equal(sval, in.val))))
	zz.Assert(zz.Implies(sameContent, untouched), "C10/same-version/untouched")
	// C04-1: a marker beats every older version and is only beaten by a newer one
	zz.Assert(zz.Implies(zz.And(inDel, in.ts > sts), vIsLogical(r, in.ts, true, nil)), "C04/marker-wins-over-older")
	zz.Assert(zz.Implies(zz.And(sdel, in.ts < sts), untouched), "C04/older-does-not-revive")
	zz.Reach("C02/step/present")
}

// VerifC02Capture: the shadow-capture use of the merge routine (timestamp 0 =
// "stamp with the detection time unless unchanged"), default timestamp above the stored one.
func VerifC02Capture() {
	def := zz.NondetU64("def")
	nv := zz.Choice("app.len", 3)
	app := vIncoming{ts: 0, flags: 0, val: zz.NondetBytes("app.val", nv)}
	cutoff := zz.NondetU64("cutoff")
	zz.Assume(def != 0)
	if zz.Choice("stored", 2) == 0 {
		r := vMerge(nil, app, 3, cutoff, def, false)
		zz.Assert(r != nil, "C11/capture/insert")
		if r != nil {
			zz.Assert(vIsLogical(r, def, false, app.val), "C11/capture/insert-stamped")
		}
		zz.Reach("C02/capture/absent")
		return
	}
	s := vNondetStored("s", 2, 1)
	sts, sdel, sval := vLogical(s)
	zz.Assume(def > sts) // shared monotone clock: detection time is later than every stored version
	r := vMerge(s, app, 3, cutoff, def, false)
	zz.Assert(r != nil, "C11/capture/never-removed")
	if r == nil {
		return
	}
	unchanged := zz.And(!sdel, bytes.Equal(sval, app.val))
	zz.Assert(zz.Implies(unchanged, bytes.Equal(r, s)), "C11/capture/untouched-keeps-timestamp")
	changedVal := zz.Not(bytes.Equal(sval, app.val))
	zz.Assert(zz.Implies(changedVal, vIsLogical(r, def, false, app.val)), "C11/capture/changed-stamped")
	// re-created with an empty value over a deletion marker (F3/F4 family)
	revive := zz.And(sdel, len(app.val) == 0)
	zz.Assert(zz.Implies(revive, vIsLogical(r, def, false, app.val)), "C11/capture/live-empty-over-marker")
	zz.Reach("C02/capture/present")
}

// VerifC02Clean: a key that vanished from the application DBI becomes a marker
// stamped with the capture time; existing markers are left untouched.
func VerifC02Clean() {
	def := zz.NondetU64("def")
	zz.Assume(def != 0)
	s := vNondetStored("s", 2, 1)
	_, sdel, _ := vLogical(s)
	d := snapshot.NewDBISize(16)
	it, err := NewNativeIterator(3, 1, d, header.Timestamp(def), 9, 0)
	if err != nil {
		zz.Assert(false, "harness/iterator")
		return
	}
	r, err := it.Clean(s)
	zz.Assert(err == nil, "C04/clean/error")
	if r == nil {
		zz.Assert(false, "C04/clean/removed")
		return
	}
	zz.Assert(zz.Implies(sdel, bytes.Equal(r, s)), "C04/clean/marker-untouched")
	zz.Assert(zz.Implies(!sdel, vIsLogical(r, def, true, nil)), "C04/clean/becomes-marker")
	zz.Reach("C02/clean/end")
}
