//go:build verif

package syncer

import (
	"bytes"
	"context"

	"github.com/PowerDNS/lightningstream/config"
	zz "github.com/PowerDNS/lightningstream/internal/zzverif"
	"github.com/PowerDNS/lightningstream/lmdbenv/header"
	"github.com/PowerDNS/lightningstream/snapshot"
	"github.com/PowerDNS/lmdb-go/lmdb"
)

// verifC10Step: merging a snapshot in which no entry wins against the stored data, with
// no local change, commits no LMDB transaction and reports "no local change".
func verifC10Step(native bool, pad bool) {
	env := zz.NewEnv()
	st := &vStore{}
	s := vFullSyncer(env, st, "inst", native, func(c *config.Config, lc *config.LMDB, opt *Options) {
		lc.HeaderExtraPaddingBlock = pad
		if !native {
			// the dupsort hack being configured must not matter for a plain DBI
			lc.DupSortHack = zz.Choice("cfg.dupsort-hack", 2) == 1
		}
	})
	ctx := context.Background()
	keys := [][]byte{[]byte("a"), []byte("b")}
	type ver struct {
		ts  uint64
		del bool
		val []byte
	}
	var stored []ver
	target := "d"
	if !native {
		target = "_sync_shadow_d"
	}
	err := env.Update(func(txn *lmdb.Txn) error {
		app, err := txn.OpenDBI("d", lmdb.Create)
		if err != nil {
			return err
		}
		tgt, err := txn.OpenDBI(target, lmdb.Create)
		if err != nil {
			return err
		}
		for i, k := range keys {
			nm := "s" + string(rune('0'+i))
			vl := zz.Choice(nm+".len", 2)
			v := ver{ts: zz.NondetU64(nm + ".ts"), val: zz.NondetBytes(nm+".val", vl)}
			if vl == 0 {
				v.del = zz.NondetBool(nm + ".del")
			}
			if !native && vl == 0 {
				v.del = true // shadow mode cannot hold live empty values (known finding F4)
			}
			ne := 0
			if pad {
				ne = zz.Choice(nm+".padded", 2)
			}
			var fl uint8
			if v.del {
				fl = 1
			}
			if err := txn.Put(tgt, k, vStoredBytes(v.ts, 1, fl, ne, make([]byte, 8*ne), v.val), 0); err != nil {
				return err
			}
			if !native && !v.del {
				if err := txn.Put(app, k, v.val, 0); err != nil {
					return err
				}
			}
			stored = append(stored, v)
		}
		return nil
	})
	if err != nil {
		zz.Assert(false, "harness/setup")
		return
	}
	// snapshot: per key an entry that does not win (older, or the same version)
	var kvs []snapshot.KV
	for i, k := range keys {
		nm := "i" + string(rune('0'+i))
		mode := zz.Choice(nm+".mode", 3) // 0 = absent from snapshot, 1 = older version, 2 = same version
		switch mode {
		case 1:
			ts := zz.NondetU64(nm + ".ts")
			zz.Assume(ts < stored[i].ts)
			vl := zz.Choice(nm+".len", 2)
			var fl uint32
			if vl == 0 && zz.NondetBool(nm+".del") {
				fl = 1
			}
			kvs = append(kvs, snapshot.KV{Key: k, Value: zz.NondetBytes(nm+".val", vl), TimestampNano: ts, Flags: fl})
		case 2:
			var fl uint32
			if stored[i].del {
				fl = 1
			}
			kvs = append(kvs, snapshot.KV{Key: k, Value: stored[i].val, TimestampNano: stored[i].ts, Flags: fl})
		}
	}
	snap := &snapshot.Snapshot{FormatVersion: 3, CompatVersion: 1}
	snap.Databases = append(snap.Databases, vSnapDBI("d", 0, "", kvs))
	before := vDumpAll(env)
	last0 := zz.LastTxnID(env)
	upd := snapshot.Update{Snapshot: snap, NameInfo: snapshot.NameInfo{Kind: snapshot.KindSnapshot, InstanceID: "other"}}
	txnID, localChanged, lerr := s.LoadOnce(ctx, env, "other", upd, header.TxnID(last0))
	zz.Assert(lerr == nil, "C10/step/no-error")
	if lerr != nil {
		return
	}
	zz.Assert(zz.LastTxnID(env) == last0, "C10/step/no-transaction-committed")
	zz.Assert(int64(txnID) == last0, "C10/step/returned-txnid-adjusted")
	zz.Assert(!localChanged, "C10/step/not-a-local-change")
	after := vDumpAll(env)
	zz.Assert(vSameDump(before, after), "C10/step/content-untouched")
	_ = bytes.Equal
	zz.Reach("C10/step/done")
}

func VerifC10StepNative()    { verifC10Step(true, false) }
func VerifC10StepNativePad() { verifC10Step(true, true) }
func VerifC10StepShadow()    { verifC10Step(false, false) }
