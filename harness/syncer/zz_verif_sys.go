//go:build verif

package syncer

import (
	"context"
	"errors"
	"io"
	"strings"
	"sync"
	"time"

	"github.com/PowerDNS/lightningstream/config"
	zz "github.com/PowerDNS/lightningstream/internal/zzverif"
	"github.com/PowerDNS/lightningstream/snapshot"
	"github.com/PowerDNS/lmdb-go/lmdb"
	"github.com/PowerDNS/simpleblob"
)

// vStore is an in-memory bucket with a log of all mutations and a scripted fault schedule.
type vStore struct {
	mu    sync.Mutex // natively the receiver's background goroutine lists concurrently
	names []string
	blobs [][]byte
	log   []vStoreOp
	// number of upcoming calls of each kind that fail
	failStore, failList, failLoad, failDelete int
	failLoadName                              string // if set, only Loads of names containing it fail
}

type vStoreOp struct {
	op   string // "store", "delete", "list", "load"
	name string
	ok   bool
}

var errVStore = errors.New("injected storage failure")

func (st *vStore) find(name string) int {
	for i, n := range st.names {
		if n == name {
			return i
		}
	}
	return -1
}

func (st *vStore) List(ctx context.Context, prefix string) (simpleblob.BlobList, error) {
	st.mu.Lock()
	defer st.mu.Unlock()
	if st.failList > 0 {
		st.failList--
		st.log = append(st.log, vStoreOp{"list", prefix, false})
		return nil, errVStore
	}
	st.log = append(st.log, vStoreOp{"list", prefix, true})
	var bl simpleblob.BlobList
	for i, n := range st.names {
		if len(n) >= len(prefix) && n[:len(prefix)] == prefix {
			bl = append(bl, simpleblob.Blob{Name: n, Size: int64(len(st.blobs[i]))})
		}
	}
	return bl, nil
}

func (st *vStore) Load(ctx context.Context, name string) ([]byte, error) {
	st.mu.Lock()
	defer st.mu.Unlock()
	if st.failLoad > 0 && (st.failLoadName == "" || strings.Contains(name, st.failLoadName)) {
		st.failLoad--
		st.log = append(st.log, vStoreOp{"load", name, false})
		return nil, errVStore
	}
	st.log = append(st.log, vStoreOp{"load", name, true})
	i := st.find(name)
	if i < 0 {
		return nil, errors.New("not found")
	}
	return st.blobs[i], nil
}

func (st *vStore) Store(ctx context.Context, name string, data []byte) error {
	st.mu.Lock()
	defer st.mu.Unlock()
	if st.failStore > 0 {
		st.failStore--
		st.log = append(st.log, vStoreOp{"store", name, false})
		return errVStore
	}
	st.log = append(st.log, vStoreOp{"store", name, true})
	if i := st.find(name); i >= 0 {
		st.blobs[i] = data
		return nil
	}
	// keep the listing sorted byte-wise
	pos := len(st.names)
	for i, n := range st.names {
		if n > name {
			pos = i
			break
		}
	}
	st.names = append(st.names, "")
	st.blobs = append(st.blobs, nil)
	copy(st.names[pos+1:], st.names[pos:])
	copy(st.blobs[pos+1:], st.blobs[pos:])
	st.names[pos], st.blobs[pos] = name, data
	return nil
}

func (st *vStore) Delete(ctx context.Context, name string) error {
	st.mu.Lock()
	defer st.mu.Unlock()
	if st.failDelete > 0 {
		st.failDelete--
		st.log = append(st.log, vStoreOp{"delete", name, false})
		return errVStore
	}
	st.log = append(st.log, vStoreOp{"delete", name, true})
	if i := st.find(name); i >= 0 {
		st.names = append(st.names[:i:i], st.names[i+1:]...)
		st.blobs = append(st.blobs[:i:i], st.blobs[i+1:]...)
	}
	return nil
}

func (st *vStore) count(op string, okOnly bool) int {
	n := 0
	for _, o := range st.log {
		if o.op == op && (o.ok || !okOnly) {
			n++
		}
	}
	return n
}

func (st *vStore) lastStored() (string, []byte) {
	for i := len(st.log) - 1; i >= 0; i-- {
		if st.log[i].op == "store" && st.log[i].ok {
			return st.log[i].name, st.blobs[st.find(st.log[i].name)]
		}
	}
	return "", nil
}

// vFullSyncer builds a Syncer through the real constructor.
func vFullSyncer(env *lmdb.Env, st simpleblob.Interface, instance string, native bool, mod func(c *config.Config, lc *config.LMDB, opt *Options)) *Syncer {
	c := config.Config{
		Instance:             instance,
		StorageRetryCount:    3,
		StorageRetryInterval: time.Millisecond,
		LMDBPollInterval:     time.Millisecond,
	}
	lc := config.LMDB{SchemaTracksChanges: native}
	opt := Options{}
	if mod != nil {
		mod(&c, &lc, &opt)
	}
	s, err := New("db", env, st, c, lc, opt)
	if err != nil {
		zz.Assert(false, "harness/new-syncer")
		panic(err)
	}
	return s
}

// vDecode decodes a stored blob into (dbi name -> entries).
type vSnapEntry struct {
	key, val []byte
	ts       uint64
	flags    uint32
}

func vEntries(d *snapshot.DBI) ([]vSnapEntry, error) {
	var out []vSnapEntry
	d.ResetCursor()
	for {
		kv, err := d.Next()
		if err != nil {
			if err.Error() == "EOF" {
				return out, nil
			}
			return out, err
		}
		out = append(out, vSnapEntry{kv.Key, kv.Value, kv.TimestampNano, kv.Flags})
	}
}

var ioEOF = io.EOF

func vEOF() error { return io.EOF }
