//go:build verif

package syncer

import (
	"bytes"
	"context"

	"github.com/PowerDNS/lightningstream/config"
	zz "github.com/PowerDNS/lightningstream/internal/zzverif"
	"github.com/PowerDNS/lightningstream/snapshot"
	"github.com/PowerDNS/lmdb-go/lmdb"
)

// vPair is one (key, value) pair with a concrete shape and arbitrary bytes in the
// positions that matter (the first bytes of key and value, next to the separator).
func vPair(name string, klen, vlen int) snapshot.KV {
	k := make([]byte, klen)
	v := make([]byte, vlen)
	sk := zz.NondetBytes(name+".k", vMin(klen, 2))
	sv := zz.NondetBytes(name+".v", vMin(vlen, 5))
	// symbolic bytes at the end of the key and the start of the value
	copy(k[klen-len(sk):], sk)
	copy(v, sv)
	for i := 0; i < klen-len(sk); i++ {
		k[i] = 'k'
	}
	for i := len(sv); i < vlen; i++ {
		v[i] = 'v'
	}
	return snapshot.KV{Key: k, Value: v, Flags: zz.NondetU32(name + ".flags")}
}

func vMin(a, b int) int {
	if a < b {
		return a
	}
	return b
}

// VerifC20One: encode/decode of one pair at every length boundary.
func VerifC20One() {
	klens := []int{0, 1, 2, 254, 255, 256}
	klen := klens[zz.Choice("klen", len(klens))]
	room := 0
	if klen >= 1 && klen <= 255 {
		room = LMDBMaxKeySize - klen - 5
	}
	vlens := []int{0, 1, 2, 5, room - 1, room, room + 1}
	vlen := vlens[zz.Choice("vlen", len(vlens))]
	if vlen < 0 {
		zz.Assume(false)
	}
	var e snapshot.KV
	if klen == 0 {
		e = snapshot.KV{Value: []byte("x")}
	} else {
		e = vPair("p", klen, vlen)
	}
	enc, err := dupSortHackEncodeOne(e)
	if klen == 0 || klen > 255 {
		zz.Assert(err != nil, "C20/encode/illegal-key-length-refused")
		zz.Reach("C20/one/refused")
		return
	}
	zz.Assert(err == nil, "C20/encode/legal-pair-accepted")
	if err != nil {
		return
	}
	zz.Assert(len(enc.Key) <= LMDBMaxKeySize && len(enc.Key) >= 1, "C20/encode/legal-lmdb-key-length")
	zz.Assert(bytes.Equal(enc.Value, e.Value) && enc.Flags == e.Flags, "C20/encode/value-and-flags-unchanged")
	dec, err := dupSortHackDecodeOne(enc)
	zz.Assert(err == nil, "C20/decode/accepts-own-encoding")
	if err == nil {
		zz.Assert(bytes.Equal(dec.Key, e.Key), "C20/roundtrip/key")
		zz.Assert(bytes.Equal(dec.Value, e.Value), "C20/roundtrip/value")
		zz.Assert(dec.Flags == e.Flags, "C20/roundtrip/flags")
	}
	zz.Reach("C20/one/roundtrip")
}

// VerifC20Decode: the decoder on arbitrary keys never panics and only accepts well-formed keys.
func VerifC20Decode() {
	n := zz.Choice("len", 9)
	k := zz.NondetBytes("key", n)
	dec, err := dupSortHackDecodeOne(snapshot.KV{Key: k, Value: []byte("v")})
	if err == nil {
		kl := int(k[n-1])
		zz.Assert(n >= kl+5 && kl == len(dec.Key), "C20/decode/only-well-formed-accepted")
		zz.Assert(bytes.Equal(dec.Key, k[:len(dec.Key)]), "C20/decode/key-is-prefix")
	}
	zz.Reach("C20/decode/end")
}

// VerifC20Seq: a DBI of two pairs in dupsort order is mapped to strictly increasing
// (hence distinct) keys, or refused.
func VerifC20Seq() {
	// shapes: same key (dups), key prefix of the other, long values sharing the visible prefix
	shape := zz.Choice("shape", 4)
	var a, b snapshot.KV
	switch shape {
	case 0: // same 1-byte key, short values
		a, b = vPair("a", 1, 1+zz.Choice("a.vlen", 2)), vPair("b", 1, 1+zz.Choice("b.vlen", 2))
		zz.Assume(bytes.Equal(a.Key, b.Key))
	case 1: // different keys of length 1 and 2 (prefix relation possible)
		a, b = vPair("a", 1, 1), vPair("b", 2, 1)
	case 2: // same key, values longer than the room left: may collide in the visible part
		a, b = vPair("a", 255, 252), vPair("b", 255, 253)
		zz.Assume(bytes.Equal(a.Key, b.Key))
	default: // zero bytes next to the separator
		a, b = vPair("a", 2, 2), vPair("b", 2, 2)
	}
	// dupsort order of the input: by key, then by value
	kc := bytes.Compare(a.Key, b.Key)
	zz.Assume(kc < 0 || (kc == 0 && bytes.Compare(a.Value, b.Value) < 0))
	d := snapshot.NewDBISize(2048)
	d.SetName("d")
	d.SetFlags(4)
	d.Append(a)
	d.Append(b)
	enc, err := dupSortHackEncode(d)
	if err != nil {
		zz.Reach("C20/seq/refused")
		return
	}
	zz.Assert(enc.Transform() == snapshot.TransformDupSortHackV1, "C20/seq/transform-stated")
	ents, derr := vEntries(enc)
	zz.Assert(derr == nil && len(ents) == 2, "C20/seq/all-pairs-encoded")
	if len(ents) != 2 {
		return
	}
	zz.Assert(bytes.Compare(ents[0].key, ents[1].key) < 0, "C20/seq/strictly-increasing-distinct-keys")
	dec, err := dupSortHackDecode(enc)
	zz.Assert(err == nil, "C20/seq/decodes")
	if err == nil {
		back, _ := vEntries(dec)
		zz.Assert(len(back) == 2 && bytes.Equal(back[0].key, a.Key) && bytes.Equal(back[0].val, a.Value) &&
			bytes.Equal(back[1].key, b.Key) && bytes.Equal(back[1].val, b.Value), "C20/seq/roundtrip")
		zz.Assert(dec.Transform() == "", "C20/seq/decoded-has-no-transform")
	}
	zz.Reach("C20/seq/accepted")
}

// VerifC20Cycle: a full mirror cycle over a duplicate-keys DBI leaves the set of pairs unchanged.
func VerifC20Cycle() {
	env := zz.NewEnv()
	st := &vStore{}
	s := vFullSyncer(env, st, "inst", false, func(c *config.Config, lc *config.LMDB, opt *Options) { lc.DupSortHack = true })
	ctx := context.Background()
	k := zz.NondetBytes("k", 1)
	// real LMDB does not keep zero-length duplicates (probed), so values are non-empty
	v1 := zz.NondetBytes("v1", 1+zz.Choice("v1.len", 2))
	v2 := zz.NondetBytes("v2", 1)
	k2 := zz.NondetBytes("k2", 1)
	zz.Assume(zz.And(!bytes.Equal(v1, v2), !bytes.Equal(k, k2)))
	err := env.Update(func(txn *lmdb.Txn) error {
		dbi, err := txn.OpenDBI("d", lmdb.Create|lmdb.DupSort)
		if err != nil {
			return err
		}
		if err := txn.Put(dbi, k, v1, 0); err != nil {
			return err
		}
		if err := txn.Put(dbi, k, v2, 0); err != nil {
			return err
		}
		return txn.Put(dbi, k2, []byte("z"), 0)
	})
	if err != nil {
		zz.Assert(false, "harness/setup")
		return
	}
	before, _ := zz.Dump(env, "d")
	zz.SetClock(1700000000000000000)
	_, err = s.SendOnce(ctx, env)
	if err != nil {
		// refused: the mapping would not preserve the order of these pairs
		after, _ := zz.Dump(env, "d")
		zz.Assert(len(after) == len(before), "C20/cycle/refusal-leaves-data-untouched")
		zz.Reach("C20/cycle/refused")
		return
	}
	// the uploaded snapshot states the transform
	_, blob := st.lastStored()
	msg, derr := snapshot.LoadData(blob)
	if derr == nil && len(msg.Databases) == 1 {
		zz.Assert(msg.Databases[0].Transform() == snapshot.TransformDupSortHackV1, "C20/snapshot/transform-stated")
		zz.Assert(msg.Databases[0].Flags()&4 != 0, "C20/snapshot/dupsort-flag")
		// a receiver without the transform refuses it; native mode refuses any transform
		zz.Assert(msg.Databases[0].ValidateTransform(3, true) != nil, "C20/snapshot/native-receiver-refuses")
	} else {
		zz.Assert(false, "C20/snapshot/decodes")
	}
	// merge an empty remote snapshot: capture + projection
	snap := &snapshot.Snapshot{FormatVersion: 3, CompatVersion: 1}
	upd := snapshot.Update{Snapshot: snap, NameInfo: snapshot.NameInfo{Kind: snapshot.KindSnapshot, InstanceID: "other"}}
	_, _, err = s.LoadOnce(ctx, env, "other", upd, 0)
	zz.Assert(err == nil, "C20/cycle/load-no-error")
	if err != nil {
		return
	}
	after, _ := zz.Dump(env, "d")
	zz.Assert(len(after) == len(before), "C20/cycle/pair-count-unchanged")
	if len(after) == len(before) {
		for i := range after {
			zz.Assert(bytes.Equal(after[i].K, before[i].K) && bytes.Equal(after[i].V, before[i].V), "C20/cycle/pairs-unchanged")
		}
	}
	// a fresh instance (no DBI "d" yet) merges the uploaded snapshot: the DBI is created from the
	// snapshot as a duplicate-keys DBI and holds exactly the original pairs
	msg2, derr2 := snapshot.LoadData(blob)
	if derr2 != nil {
		return
	}
	envB := zz.NewEnv()
	sB := vFullSyncer(envB, &vStore{}, "fresh", false, func(c *config.Config, lc *config.LMDB, opt *Options) { lc.DupSortHack = true })
	updB := snapshot.Update{Snapshot: msg2, NameInfo: snapshot.NameInfo{Kind: snapshot.KindSnapshot, InstanceID: "inst"}}
	_, _, err = sB.LoadOnce(ctx, envB, "inst", updB, 0)
	zz.Assert(err == nil, "C20/fresh/load-no-error")
	if err != nil {
		return
	}
	for _, d := range vDumpAll(envB) {
		if d.name == "d" {
			zz.Assert(d.flags&lmdb.DupSort != 0, "C20/fresh/created-as-duplicate-keys-dbi")
		}
	}
	gotB, _ := zz.Dump(envB, "d")
	zz.Assert(len(gotB) == len(before), "C20/fresh/pair-count")
	if len(gotB) == len(before) {
		for i := range gotB {
			zz.Assert(bytes.Equal(gotB[i].K, before[i].K) && bytes.Equal(gotB[i].V, before[i].V), "C20/fresh/pairs-as-on-the-origin")
		}
	}
	zz.Reach("C20/cycle/done")
}

// VerifC20RemoteDelete: a remote deletion of one pair of a duplicate-keys DBI removes exactly that
// pair from the application's DBI, also when the pair's value is longer than the room left in the
// encoded key (the encoded key then carries only a prefix of the value).
func VerifC20RemoteDelete() {
	env := zz.NewEnv()
	st := &vStore{}
	s := vFullSyncer(env, st, "inst", false, func(c *config.Config, lc *config.LMDB, opt *Options) { lc.DupSortHack = true })
	ctx := context.Background()
	k := zz.NondetBytes("k", 1)
	room := LMDBMaxKeySize - 1 - 5
	vlens := []int{1, 2, room - 1, room, room + 1, room + 5}
	vlen := vlens[zz.Choice("v1.len", len(vlens))]
	v1 := make([]byte, vlen)
	for i := range v1 {
		v1[i] = 'v'
	}
	copy(v1, zz.NondetBytes("v1", 1))
	v2 := zz.NondetBytes("v2", 1)
	zz.Assume(!bytes.Equal(v1[:1], v2))
	err := env.Update(func(txn *lmdb.Txn) error {
		dbi, err := txn.OpenDBI("d", lmdb.Create|lmdb.DupSort)
		if err != nil {
			return err
		}
		if err := txn.Put(dbi, k, v1, 0); err != nil {
			return err
		}
		return txn.Put(dbi, k, v2, 0)
	})
	if err != nil {
		zz.Assert(false, "harness/setup")
		return
	}
	zz.SetClock(1700000000000000000)
	if _, err = s.SendOnce(ctx, env); err != nil {
		zz.Reach("C20/remote-delete/refused")
		return
	}
	_, blob := st.lastStored()
	msg, derr := snapshot.LoadData(blob)
	if derr != nil || len(msg.Databases) != 1 {
		zz.Assert(false, "C20/snapshot/decodes")
		return
	}
	// the remote instance's snapshot: the same DBI with the pair (k, v1) deleted later
	src := msg.Databases[0]
	src.ResetCursor()
	var kvs []snapshot.KV
	found := 0
	for {
		kv, nerr := src.Next()
		if nerr != nil {
			break
		}
		c := snapshot.KV{Key: append([]byte(nil), kv.Key...), Value: append([]byte(nil), kv.Value...), TimestampNano: kv.TimestampNano, Flags: kv.Flags}
		if len(c.Value) == len(v1) && bytes.Equal(c.Value, v1) {
			c.Value = nil
			c.Flags = 1
			c.TimestampNano = kv.TimestampNano + 1000
			found++
		}
		kvs = append(kvs, c)
	}
	zz.Assert(found == 1 && len(kvs) == 2, "C20/remote-delete/snapshot-has-both-pairs")
	if found != 1 {
		return
	}
	snap := &snapshot.Snapshot{FormatVersion: 3, CompatVersion: 1}
	snap.Databases = append(snap.Databases, vSnapDBI("d", src.Flags(), src.Transform(), kvs))
	upd := snapshot.Update{Snapshot: snap, NameInfo: snapshot.NameInfo{Kind: snapshot.KindSnapshot, InstanceID: "other"}}
	zz.SetClock(1700000001000000000)
	_, _, err = s.LoadOnce(ctx, env, "other", upd, 0)
	zz.Assert(err == nil, "C20/remote-delete/load-no-error")
	if err != nil {
		return
	}
	after, _ := zz.Dump(env, "d")
	zz.Assert(len(after) == 1, "C20/remote-delete/exactly-the-deleted-pair-removed")
	if len(after) == 1 {
		zz.Assert(bytes.Equal(after[0].K, k) && bytes.Equal(after[0].V, v2), "C20/remote-delete/other-pair-kept")
	}
	zz.Reach("C20/remote-delete/done")
}
