//go:build verif

package syncer

import (
	"context"
	"time"

	"github.com/PowerDNS/lightningstream/config"
	zz "github.com/PowerDNS/lightningstream/internal/zzverif"
	"github.com/PowerDNS/lightningstream/snapshot"
	"github.com/PowerDNS/lightningstream/syncer/receiver"
	"github.com/PowerDNS/lmdb-go/lmdb"
)

// ----- C05: restart with snapshots of the own instance in the bucket, crash points, Store retries -----

func vOwnSnapshot(inst string, ts uint64, val []byte) []byte {
	snap := &snapshot.Snapshot{FormatVersion: 3, CompatVersion: 1}
	snap.Meta.InstanceID = inst
	snap.Meta.DatabaseName = "db"
	d := snapshot.NewDBISize(64)
	d.SetName("d")
	d.Append(snapshot.KV{Key: []byte("a"), Value: val, TimestampNano: ts})
	snap.Databases = append(snap.Databases, d)
	blob, _, err := snapshot.DumpData(snap)
	if err != nil {
		panic(err)
	}
	return blob
}

// vKeyTS returns the timestamp of key in a decoded snapshot blob (0, false if absent).
func vKeyTS(blob []byte, key string) (uint64, bool) {
	msg, err := snapshot.LoadData(blob)
	if err != nil {
		return 0, false
	}
	for _, d := range msg.Databases {
		if d.Name() != "d" {
			continue
		}
		es, _ := vEntries(d)
		for _, e := range es {
			if string(e.key) == key {
				return e.ts, true
			}
		}
	}
	return 0, false
}

type vRun struct {
	s   *Syncer
	r   *receiver.Receiver
	ctx *vLoopCtx
}

// vStartInstance starts (or restarts) the instance on env and the bucket.
func vStartInstance(env *lmdb.Env, st *vStore, native bool, retries int) *vRun {
	s := vFullSyncer(env, st, "inst", native, func(c *config.Config, lc *config.LMDB, opt *Options) {
		c.StoragePollInterval = time.Hour
		c.MemoryDecompressedSnapshots = 3
		c.MemoryDownloadedSnapshots = 3
		c.StorageRetryCount = retries
	})
	r := receiver.New(st, s.c, "db", s.l, "inst", s.events, s.hooks)
	r.VerifPrepare("other", "inst")
	return &vRun{s: s, r: r, ctx: vNewLoopCtx()}
}

// verifC05Restart: the bucket holds a snapshot of this instance (key a at ts_own) and one of
// another instance; the instance restarts with its LMDB kept, emptied, or emptied and
// re-written by the application; the run is killed at an arbitrary yield point and the
// instance is restarted once more. Every upload of the instance carries key a at least as
// new as its own previous newest snapshot: nothing published is lost.
func verifC05Restart(native bool) {
	st := &vStore{}
	ctx := context.Background()
	tsOwn := zz.NondetU64("own.ts")
	tsOther := zz.NondetU64("other.ts")
	zz.Assume(zz.And(tsOwn > 1, tsOther > 1))
	_ = st.Store(ctx, "db__inst__20240101-000001-000000000__GX.pb.gz", vOwnSnapshot("inst", tsOwn, []byte("o")))
	_ = st.Store(ctx, "db__other__20240101-000001-000000000__GX.pb.gz", vOwnSnapshot("other", tsOther, []byte("r")))
	st.log = nil

	env := zz.NewEnv()
	local := zz.Choice("local", 3) // 0 = kept (has key a as published), 1 = emptied, 2 = emptied and re-written
	err := env.Update(func(txn *lmdb.Txn) error {
		if local == 1 {
			return nil
		}
		dbi, err := txn.OpenDBI("d", lmdb.Create)
		if err != nil {
			return err
		}
		key, val, ts := []byte("a"), []byte("o"), tsOwn
		if local == 2 {
			key, val, ts = []byte("c"), []byte("n"), zz.NondetU64("rewrite.ts")
			zz.Assume(ts > 0)
		}
		if native {
			return txn.Put(dbi, key, vStoredBytes(ts, 1, 0, 0, nil, val), 0)
		}
		return txn.Put(dbi, key, val, 0)
	})
	if err != nil {
		zz.Assert(false, "harness/setup")
		return
	}
	zz.ClockStep()
	// transient Load failures: the own snapshot may not be downloadable for a while
	st.failLoad = zz.Choice("load.fails", 3)
	if zz.Choice("load.fails.own", 2) == 1 {
		st.failLoadName = "__inst__"
	}
	crashAt := zz.Choice("crash.at", 12) // 0 = no crash; k = at the k-th yield point of the first run
	nYield := 0
	maxIter := 3
	for run := 0; run < 2; run++ {
		in := vStartInstance(env, st, native, 3)
		iter := 0
		VerifYield = func(point string) {
			nYield++
			if point == "loop-top" {
				iter++
				zz.ClockStep()
				in.r.VerifPlay(in.ctx, iter > 1, false)
			}
			if run == 0 && nYield == crashAt {
				zz.Crash()
			}
			if point == "loop-before-sleep" && iter >= maxIter {
				in.ctx.cancel()
			}
		}
		in.r.VerifPlay(in.ctx, true, true)
		crashed := zz.Try(func() { _ = in.s.syncLoop(in.ctx, env, in.r) })
		VerifYield = nil
		if !crashed {
			break
		}
		zz.Reach("C05/restart/crashed")
	}
	// every successful upload of this instance dominates what it had published before
	prev := tsOwn
	uploads := 0
	for _, op := range st.log {
		if op.op != "store" || !op.ok {
			continue
		}
		uploads++
		i := st.find(op.name)
		if i < 0 {
			continue
		}
		ts, has := vKeyTS(st.blobs[i], "a")
		zz.Assert(has, "C05/restart/upload-still-contains-published-key")
		if has {
			zz.Assert(ts >= prev, "C05/restart/upload-not-older-than-own-previous-snapshot")
			zz.Assert(zz.Or(ts == tsOwn, ts == tsOther), "C05/restart/version-comes-from-the-bucket")
			if ts > prev {
				prev = ts
			}
		}
	}
	// with no crash the run publishes within the bound: the instance is not wedged by the gate
	// (an instance restarted with an emptied LMDB has nothing of its own to publish)
	if crashAt == 0 && local != 1 {
		zz.Assert(uploads >= 1, "C05/restart/uploads-after-merging-own-snapshot")
	}
	zz.Reach("C05/restart/done")
}

func VerifC05RestartNative() { verifC05Restart(true) }
func VerifC05RestartShadow() { verifC05Restart(false) }

// VerifC05StoreRetry: failing Store calls are retried within the budget; if the budget is
// exhausted the loop ends with an error, and the cleaner is told about merged snapshots only
// after a successful upload.
func VerifC05StoreRetry() {
	st := &vStore{}
	ctx := context.Background()
	_ = st.Store(ctx, "db__other__20240101-000001-000000000__GX.pb.gz", vOwnSnapshot("other", 5, []byte("r")))
	st.log = nil
	env := zz.NewEnv()
	err := env.Update(func(txn *lmdb.Txn) error {
		dbi, err := txn.OpenDBI("d", lmdb.Create)
		if err != nil {
			return err
		}
		return txn.Put(dbi, []byte("c"), vStoredBytes(7, 1, 0, 0, nil, []byte("n")), 0)
	})
	if err != nil {
		return
	}
	retries := 1 + zz.Choice("retries", 3)
	fails := zz.Choice("store.fails", 4)
	in := vStartInstance(env, st, true, retries)
	st.failStore = fails
	iter := 0
	VerifYield = func(point string) {
		if point == "loop-top" {
			iter++
			in.r.VerifPlay(in.ctx, iter > 1, false)
		}
		if point == "loop-before-sleep" && iter >= 2 {
			in.ctx.cancel()
		}
	}
	in.r.VerifPlay(in.ctx, true, true)
	lerr := in.s.syncLoop(in.ctx, env, in.r)
	VerifYield = nil
	okStores := st.count("store", true)
	if fails >= retries {
		zz.Assert(lerr != nil && lerr != context.Canceled, "C05/retry/exhausted-budget-is-fatal")
		zz.Assert(okStores == 0, "C05/retry/nothing-stored")
		zz.Assert(in.s.cleaner.GetCommitted("other").IsZero(), "C05/retry/no-commit-notification-without-upload")
		// C12: storage errors never lead to a wrongful deletion - the cleaner may only learn about a
		// merged snapshot once this instance has really re-published it
		zz.Assert(in.s.cleaner.GetCommitted("other").IsZero(), "C12/retry/storage-error-is-not-a-commit-notification")
		zz.Reach("C05/retry/fatal")
	} else {
		zz.Assert(lerr == context.Canceled, "C05/retry/failure-within-budget-is-retried")
		zz.Assert(okStores == 1 && st.count("store", false) == fails+1, "C05/retry/retried-until-stored")
		zz.Assert(!in.s.cleaner.GetCommitted("other").IsZero(), "C05/retry/commit-notification-after-upload")
		zz.Reach("C05/retry/stored")
	}
}
