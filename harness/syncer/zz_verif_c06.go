//go:build verif

package syncer

import (
	"bytes"
	"context"

	zz "github.com/PowerDNS/lightningstream/internal/zzverif"
	"github.com/PowerDNS/lightningstream/snapshot"
	"github.com/PowerDNS/lmdb-go/lmdb"
)

// verifC06 runs the real SendOnce over an arbitrary small LMDB and decodes what was uploaded.
func verifC06(native bool, nEntries int, integer bool) {
	env := zz.NewEnv()
	st := &vStore{}
	s := vFullSyncer(env, st, "inst", native, nil)
	ctx := context.Background()
	var flags uint
	if integer {
		flags = 0x08
	}
	type ent struct {
		key, app []byte
		ts       uint64
		del      bool
	}
	var ents []ent
	// value length and extension count of each entry are the sharding key
	sh := zz.Shard(36)
	lens := []int{sh % 2, sh / 2 % 2}
	extras := []int{sh / 4 % 3, sh / 12 % 3}
	if vC06BigHeaders {
		// headers whose 16-bit block count is at and around a multiple of 256
		big := []int{255, 256, 257, 512}
		extras = []int{big[sh/4%3+sh/12%2], sh / 12 % 3}
	}
	err := env.Update(func(txn *lmdb.Txn) error {
		dbi, err := txn.OpenDBI("d", lmdb.Create|flags)
		if err != nil {
			return err
		}
		priv, err := txn.OpenDBI("_sync_private", lmdb.Create)
		if err != nil {
			return err
		}
		// an application DBI that was created with flags but holds no entry (yet)
		if _, err := txn.OpenDBI("_ints", lmdb.Create|0x08); err != nil {
			return err
		}
		if err := txn.Put(priv, []byte("x"), vStoredBytes(5, 1, 0, 0, nil, []byte("y")), 0); err != nil {
			return err
		}
		for i := 0; i < nEntries; i++ {
			nm := "e" + string(rune('0'+i))
			var k []byte
			if integer {
				k = zz.NondetBytes(nm+".key", 4)
			} else {
				k = zz.NondetBytes(nm+".key", 1)
			}
			for _, o := range ents {
				if bytes.Equal(o.key, k) {
					zz.Assume(false)
				}
			}
			vl := lens[i%2]
			app := zz.NondetBytes(nm+".val", vl)
			if native {
				ne := extras[i%2]
				fl := zz.NondetU8(nm + ".flags")
				if vl > 0 {
					zz.Assume(fl&1 == 0)
				}
				ts := zz.NondetU64(nm + ".ts")
				var ext []byte
				if ne > 8 {
					ext = bytes.Repeat([]byte{0xEE}, 8*ne) // large extension areas: concrete content
				} else {
					ext = zz.NondetBytes(nm+".ext", 8*ne)
				}
				stored := vStoredBytes(ts, zz.NondetU64(nm+".txn"), fl, ne, ext, app)
				if err := txn.Put(dbi, k, stored, 0); err != nil {
					return err
				}
				ents = append(ents, ent{k, app, ts, fl&1 != 0})
			} else {
				if err := txn.Put(dbi, k, app, 0); err != nil {
					return err
				}
				ents = append(ents, ent{k, app, 0, false})
			}
		}
		return nil
	})
	if err != nil {
		zz.Assert(false, "harness/setup")
		return
	}
	zz.ClockAuto(true)
	before := zz.ClockRead()
	views0, updates0 := zz.TxnCounts(env)
	// the clock moves on just before the dump transaction is opened (an application
	// transaction may have held the write lock until then)
	var txnStart int64
	VerifYield = func(point string) {
		if point == "send-before-txn" {
			zz.ClockStep()
			txnStart = zz.ClockRead()
		}
	}
	txnID, err := s.SendOnce(ctx, env)
	VerifYield = nil
	after := zz.ClockRead()
	views1, updates1 := zz.TxnCounts(env)
	zz.Assert(err == nil, "C06/sendonce/no-error")
	if err != nil {
		return
	}
	// the whole dump happened inside one transaction
	if zz.Symbolic() {
		if native {
			zz.Assert(views1-views0 == 1 && updates1 == updates0, "C06/one-read-transaction")
		} else {
			zz.Assert(updates1-updates0 == 1 && views1 == views0, "C06/one-write-transaction")
		}
	}
	zz.Assert(st.count("store", true) == 1, "C06/one-upload")
	name, blob := st.lastStored()
	if blob == nil {
		return
	}
	msg, err := snapshot.LoadData(blob)
	zz.Assert(err == nil, "C06/blob-decodes")
	if err != nil {
		return
	}
	zz.Assert(msg.FormatVersion == snapshot.CurrentFormatVersion && msg.CompatVersion == 1, "C06/versions")
	zz.Assert(msg.Meta.DatabaseName == "db" && msg.Meta.InstanceID == "inst", "C06/meta/names")
	tsn := int64(msg.Meta.TimestampNano)
	zz.Assert(zz.And(tsn >= before, tsn <= after), "C06/meta/time-taken-inside-the-call")
	zz.Assert(tsn >= txnStart, "C06/meta/time-taken-after-the-transaction-began")
	zz.Assert(msg.Meta.LmdbTxnID == int64(txnID), "C06/meta/txnid")
	ni, err := snapshot.ParseName(name)
	zz.Assert(err == nil, "C06/name/parses")
	if err == nil {
		zz.Assert(ni.SyncerName == "db" && ni.InstanceID == "inst" && ni.Kind == snapshot.KindSnapshot, "C06/name/components")
		zz.Assert(ni.Timestamp.UnixNano() == tsn, "C06/name/time-equals-meta-time")
	}
	// exactly the application DBIs, no private DBIs
	zz.Assert(len(msg.Databases) == 2, "C06/dbis/exactly-the-application-dbis")
	if len(msg.Databases) != 2 {
		return
	}
	d := msg.Databases[0]
	for _, x := range msg.Databases {
		if x.Name() == "d" {
			d = x
		} else {
			zz.Assert(x.Name() == "_ints", "C06/dbis/names")
			zz.Assert(x.Flags() == 0x08, "C06/dbi/empty-dbi-keeps-its-flags")
			ee, eerr := vEntries(x)
			zz.Assert(eerr == nil && len(ee) == 0, "C06/dbi/empty-dbi-has-no-entries")
		}
	}
	zz.Assert(d.Name() == "d", "C06/dbi/name")
	zz.Assert(d.Flags() == uint64(flags), "C06/dbi/original-flags")
	zz.Assert(d.Transform() == "", "C06/dbi/no-transform")
	got, err := vEntries(d)
	zz.Assert(err == nil, "C06/dbi/entries-decode")
	zz.Assert(len(got) == len(ents), "C06/entries/all-present")
	if len(got) != len(ents) {
		return
	}
	for _, g := range got {
		found := false
		for _, w := range ents {
			if !bytes.Equal(w.key, g.key) {
				continue
			}
			found = true
			if native {
				zz.Assert(g.ts == w.ts, "C06/entry/timestamp")
				zz.Assert((g.flags&1 != 0) == w.del, "C04/marker-dumped")
				zz.Assert(g.flags&^1 == 0, "C06/entry/only-synced-flags")
				zz.Assert(bytes.Equal(g.val, w.app), "C06/entry/application-value-after-extension-blocks")
			} else {
				zz.Assert(zz.And(int64(g.ts) >= before, int64(g.ts) <= tsn), "C06/shadow-entry/stamped-at-capture")
				zz.Assert(g.flags == 0, "C06/shadow-entry/live")
				zz.Assert(bytes.Equal(g.val, w.app), "C06/shadow-entry/value")
			}
		}
		zz.Assert(found, "C06/entry/key-exists-in-lmdb")
	}
	zz.Reach("C06/done")
}

func VerifC06Native() { verifC06(true, 2, false) }

// vC06BigHeaders switches the first entry's header to 255/256/257/512 extension blocks.
var vC06BigHeaders bool

// VerifC06BigHeader: the application value is found after an extension area of 2 KB and more
// (the 16-bit block count at and around multiples of 256).
func VerifC06BigHeader() {
	vC06BigHeaders = true
	verifC06(true, 2, false)
	vC06BigHeaders = false
}
func VerifC06Shadow()    { verifC06(false, 2, false) }
func VerifC06NativeInt() { verifC06(true, 2, true) }

// VerifC06Monotone: two consecutive snapshots of one instance carry increasing times and names.
func VerifC06Monotone() {
	env := zz.NewEnv()
	st := &vStore{}
	s := vFullSyncer(env, st, "inst", true, nil)
	ctx := context.Background()
	err := env.Update(func(txn *lmdb.Txn) error {
		dbi, err := txn.OpenDBI("d", lmdb.Create)
		if err != nil {
			return err
		}
		return txn.Put(dbi, []byte("k"), vStoredBytes(5, 1, 0, 0, nil, []byte("v")), 0)
	})
	if err != nil {
		return
	}
	zz.ClockAuto(true)
	if _, err := s.SendOnce(ctx, env); err != nil {
		zz.Assert(false, "C06/sendonce/no-error")
		return
	}
	n1, _ := st.lastStored()
	zz.ClockStep() // the clock ticks between two snapshots
	if _, err := s.SendOnce(ctx, env); err != nil {
		zz.Assert(false, "C06/sendonce/no-error")
		return
	}
	n2, _ := st.lastStored()
	zz.Assert(n1 < n2, "C06/later-snapshot-later-name")
	zz.Assert(len(st.names) == 2, "C06/two-distinct-names")
	zz.Reach("C06/monotone/done")
}
