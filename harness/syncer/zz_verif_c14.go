//go:build verif

package syncer

import (
	"bytes"

	zz "github.com/PowerDNS/lightningstream/internal/zzverif"
	"github.com/PowerDNS/lightningstream/lmdbenv/header"
	"github.com/PowerDNS/lightningstream/snapshot"
)

// vWellFormed is the independent reader's verdict on a value Lightning Stream wrote:
// big-endian ts and txn id, version 0, flags within the synced set, reserved zero,
// extension count matching the bytes present (all-zero padding), then exactly the
// application value, which is empty when deleted.
func vWellFormed(r []byte, ts, txn uint64, del bool, val []byte, pad bool, tag string) {
	ne := 0
	if pad {
		ne = 1
	}
	wantLen := 24 + 8*ne
	if !del {
		wantLen += len(val)
	}
	zz.Assert(len(r) == wantLen, "C14/"+tag+"/length")
	if len(r) != wantLen {
		return
	}
	var rts, rtxn uint64
	for i := 0; i < 8; i++ {
		rts = rts<<8 | uint64(r[i])
		rtxn = rtxn<<8 | uint64(r[8+i])
	}
	zz.Assert(rts == ts, "C14/"+tag+"/ts-big-endian")
	zz.Assert(rtxn == txn, "C14/"+tag+"/txnid")
	zz.Assert(r[16] == 0, "C14/"+tag+"/version")
	zz.Assert(r[17]&^uint8(header.FlagSyncMask) == 0, "C14/"+tag+"/flags-in-synced-set")
	zz.Assert((r[17]&1 != 0) == del, "C14/"+tag+"/deleted-flag")
	zz.Assert(zz.And(zz.And(r[18] == 0, r[19] == 0), zz.And(r[20] == 0, r[21] == 0)), "C14/"+tag+"/reserved-zero")
	zz.Assert(zz.And(r[22] == 0, int(r[23]) == ne), "C14/"+tag+"/extension-count")
	for i := 24; i < 24+8*ne; i++ {
		zz.Assert(r[i] == 0, "C14/"+tag+"/padding-zero")
	}
	if !del {
		zz.Assert(bytes.Equal(r[24+8*ne:], val), "C14/"+tag+"/value")
	}
}

// VerifC14AddHeader: every value the merge routine writes (absent key, winning remote
// version, capture, clean), twice in a row through one iterator so the buffer reuse is covered.
func VerifC14AddHeader() {
	fv := vFormat()
	pad := zz.NondetBool("pad")
	def := zz.NondetU64("def")
	txn := zz.NondetU64("txn")
	zz.Assume(zz.And(txn != 0, def != 0))
	it, err := NewNativeIterator(fv, 1, nil, header.Timestamp(def), header.TxnID(txn), 0)
	if err != nil {
		zz.Assert(false, "harness/iterator")
		return
	}
	it.HeaderPaddingBlock = pad
	for round := 0; round < 2; round++ {
		name := "a"
		if round == 1 {
			name = "b"
		}
		// raw: also entries that carry the deleted flag together with leftover value bytes
		// (as another writer of the native schema may produce)
		in := vNondetIncomingRaw(name, 2)
		it.curKV = snapshot.KV{Key: []byte{'k'}, Value: in.val, TimestampNano: in.ts, Flags: in.flags}
		r, err := it.Merge(nil)
		zz.Assert(err == nil && r != nil, "C14/addheader/result")
		if r == nil {
			return
		}
		wantTS := zz.IteU64(in.ts == 0, def, in.ts)
		vWellFormed(r, wantTS, txn, in.deleted(fv), in.val, pad, "addheader")
	}
	// clean of a live entry
	s := vStoredBytes(zz.NondetU64("s.ts"), 1, 0, 0, nil, zz.NondetBytes("s.val", 1))
	r, err := it.Clean(s)
	zz.Assert(err == nil && r != nil, "C14/clean/result")
	if r != nil {
		vWellFormed(r, def, txn, true, nil, pad, "clean")
	}
	zz.Reach("C14/addheader/end")
}

// VerifC14MergeWin: a winning remote version written over an arbitrary stored value.
func VerifC14MergeWin() {
	fv := vFormat()
	pad := zz.NondetBool("pad")
	in := vNondetIncomingRaw("in", 2)
	s := vNondetStored("s", 2, 1)
	sts, _, _ := vLogical(s)
	zz.Assume(in.ts > sts)
	it, _ := NewNativeIterator(fv, 1, nil, 0, 9, 0)
	it.HeaderPaddingBlock = pad
	it.curKV = snapshot.KV{Key: []byte{'k'}, Value: in.val, TimestampNano: in.ts, Flags: in.flags}
	r, err := it.Merge(s)
	zz.Assert(err == nil && r != nil, "C14/mergewin/result")
	if r != nil {
		vWellFormed(r, in.ts, 9, in.deleted(fv), in.val, pad, "mergewin")
	}
	zz.Reach("C14/mergewin/end")
}
