//go:build verif

package syncer

import (
	"bytes"
	"context"
	"time"

	"github.com/PowerDNS/lightningstream/config"
	zz "github.com/PowerDNS/lightningstream/internal/zzverif"
	"github.com/PowerDNS/lightningstream/lmdbenv/header"
	"github.com/PowerDNS/lightningstream/snapshot"
	"github.com/PowerDNS/lightningstream/syncer/events"
	"github.com/PowerDNS/lightningstream/syncer/hooks"
	"github.com/PowerDNS/lmdb-go/lmdb"
	"github.com/sirupsen/logrus"
)

// vNewSyncer builds a Syncer around an environment without going through New()
// (no cleaner/health trackers: they are not used by the functions under test).
func vNewSyncer(env *lmdb.Env, native bool) *Syncer {
	lg := logrus.New()
	lg.SetLevel(logrus.PanicLevel)
	return &Syncer{
		name:           "db",
		env:            env,
		lc:             config.LMDB{SchemaTracksChanges: native},
		l:              lg,
		hooks:          hooks.New(),
		events:         events.New(),
		lastByInstance: map[string]time.Time{},
	}
}

// vAppEntry: one key of the application DBI in a state.
type vAppEntry struct {
	present bool
	val     []byte
}

func vNondetApp(name string, maxVal int) vAppEntry {
	k := zz.Choice(name, maxVal+2) // 0 = absent, 1.. = present with value length k-1
	if k == 0 {
		return vAppEntry{}
	}
	return vAppEntry{present: true, val: zz.NondetBytes(name+".val", k-1)}
}

func vFind(d []zz.KV, k []byte) []byte {
	for _, e := range d {
		if bytes.Equal(e.K, k) {
			return e.V
		}
	}
	return nil
}

// verifC11 drives the two real mirror passes over one application DBI with two keys:
// capture at t0, an arbitrary change set, capture at t1 > t0, projection.
func verifC11(integer bool, width int) {
	env := zz.NewEnv()
	s := vNewSyncer(env, false)
	ctx := context.Background()
	var flags uint
	nkeys := 2
	keys := make([][]byte, nkeys)
	if integer {
		flags = 0x08
		keys[0] = zz.NondetBytes("k0", width)
		keys[1] = zz.NondetBytes("k1", width)
	} else {
		keys[0] = zz.NondetBytes("k0", 1)
		keys[1] = zz.NondetBytes("k1", 1+zz.Choice("k1.len", 2))
	}
	zz.Assume(!bytes.Equal(keys[0], keys[1]))
	a0 := []vAppEntry{vNondetApp("a0.k0", 1), vNondetApp("a0.k1", 1)}
	a1 := []vAppEntry{vNondetApp("a1.k0", 1), vNondetApp("a1.k1", 1)}
	t0 := zz.NondetU64("t0")
	t1 := zz.NondetU64("t1")
	zz.Assume(zz.And(t0 > 0, t1 > t0))

	put := func(st []vAppEntry) error {
		return env.Update(func(txn *lmdb.Txn) error {
			dbi, err := txn.OpenDBI("d", lmdb.Create|flags)
			if err != nil {
				return err
			}
			for i, e := range st {
				if e.present {
					if err := txn.Put(dbi, keys[i], e.val, 0); err != nil {
						return err
					}
				} else {
					if err := txn.Del(dbi, keys[i], nil); err != nil && !lmdb.IsNotFound(err) {
						return err
					}
				}
			}
			return nil
		})
	}
	if err := put(a0); err != nil {
		zz.Assert(false, "harness/setup")
		return
	}
	// first capture
	err := env.Update(func(txn *lmdb.Txn) error { return s.mainToShadow(ctx, txn, header.Timestamp(t0)) })
	zz.Assert(err == nil, "C11/capture/valid-content-accepted")
	if err != nil {
		zz.Reach("C11/capture0-error")
		return
	}
	sh0, _ := zz.Dump(env, "_sync_shadow_d")
	// the application changes its data
	if err := put(a1); err != nil {
		zz.Assert(false, "harness/change")
		return
	}
	// second capture + projection, in one transaction like LoadOnce/SendOnce do
	var txnID uint64
	err = env.Update(func(txn *lmdb.Txn) error {
		txnID = uint64(txn.ID())
		if err := s.mainToShadow(ctx, txn, header.Timestamp(t1)); err != nil {
			return err
		}
		return s.shadowToMain(ctx, txn)
	})
	if err != nil {
		zz.Debug("cycle error", err)
	}
	zz.Assert(err == nil, "C11/cycle/valid-content-accepted")
	if err != nil {
		return
	}
	sh1, shExists := zz.Dump(env, "_sync_shadow_d")
	app, _ := zz.Dump(env, "d")
	zz.Assert(shExists, "C11/shadow-dbi-exists")
	live := 0
	for i := 0; i < nkeys; i++ {
		was := vFind(sh0, keys[i])
		now := vFind(sh1, keys[i])
		inApp := vFind(app, keys[i])
		appHas := false
		for _, e := range app {
			if bytes.Equal(e.K, keys[i]) {
				appHas = true
			}
		}
		if a1[i].present {
			live++
			unchanged := a0[i].present && bytes.Equal(a0[i].val, a1[i].val)
			zz.Assert(now != nil, "C11/capture/present-key-in-shadow")
			if now == nil {
				continue
			}
			if unchanged {
				zz.Assert(bytes.Equal(now, was), "C11/capture/untouched-keeps-bytes")
			} else {
				zz.Assert(vIsLogical(now, t1, false, a1[i].val), "C11/capture/change-stamped-with-detection-time")
				if len(now) >= 24 {
					_, txn := vTsTxn(now)
					zz.Assert(txn == txnID, "C14/txnid")
				}
			}
			// projection: the application still sees its own value
			if len(a1[i].val) == 0 {
				zz.Assert(appHas, "C11/project/live-empty-value-kept")
			} else {
				zz.Assert(appHas && bytes.Equal(inApp, a1[i].val), "C11/project/value")
			}
		} else {
			zz.Assert(!appHas, "C11/project/deleted-key-absent")
			if a0[i].present {
				// vanished: marker stamped with the detection time
				zz.Assert(now != nil, "C04/clean/marker-present")
				if now != nil {
					zz.Assert(vIsLogical(now, t1, true, nil), "C04/clean/marker-stamped")
				}
			} else {
				zz.Assert(now == nil, "C11/capture/never-present-key-has-no-entry")
			}
		}
	}
	zz.Assert(len(sh1) <= nkeys, "C11/capture/no-extra-shadow-entries")
	_ = live
	zz.Reach("C11/cycle/done")
}

func vTsTxn(b []byte) (ts, txn uint64) {
	for i := 0; i < 8; i++ {
		ts = ts<<8 | uint64(b[i])
		txn = txn<<8 | uint64(b[8+i])
	}
	return
}

func VerifC11Bytes() { verifC11(false, 0) }
func VerifC11Int4()  { verifC11(true, 4) }
func VerifC11Int8()  { verifC11(true, 8) }

// VerifC11LargeInsert: the application owns the even keys with values of about 930 bytes (so
// that, natively, inserting between them splits LMDB leaf pages); a remote snapshot brings the
// odd keys, all newer. After the merge the application DBI holds exactly the six live entries.
// (Under the engine the LMDB model enforces the documented lifetime of Txn.RawRead memory:
// slices handed out with RawRead set are scribbled over by the next update in the transaction.)
func VerifC11LargeInsert() {
	env := zz.NewEnv()
	st := &vStore{}
	s := vFullSyncer(env, st, "inst", false, nil)
	ctx := context.Background()
	mkKey := func(i int) []byte { return []byte("key-0000" + string(rune('0'+i))) }
	mkVal := func(i int, who string) []byte {
		v := []byte("value-of-0000" + string(rune('0'+i)) + "-written-by-" + who)
		return append(v, bytes.Repeat([]byte{'x'}, 900)...)
	}
	t0 := zz.NondetU64("t0")
	ts := zz.NondetU64("remote.ts")
	zz.Assume(zz.And(t0 > 0, ts > t0))
	err := env.Update(func(txn *lmdb.Txn) error {
		dbi, err := txn.OpenDBI("foo", lmdb.Create)
		if err != nil {
			return err
		}
		for i := 0; i < 6; i += 2 {
			if err := txn.Put(dbi, mkKey(i), mkVal(i, "local"), 0); err != nil {
				return err
			}
		}
		return s.mainToShadow(ctx, txn, header.Timestamp(t0))
	})
	if err != nil {
		zz.Assert(false, "harness/setup")
		return
	}
	var kvs []snapshot.KV
	for i := 1; i < 6; i += 2 {
		kvs = append(kvs, snapshot.KV{Key: mkKey(i), Value: mkVal(i, "remote"), TimestampNano: ts})
	}
	snap := &snapshot.Snapshot{FormatVersion: 3, CompatVersion: 1}
	snap.Meta.InstanceID = "other"
	snap.Databases = append(snap.Databases, vSnapDBI("foo", 0, "", kvs))
	upd := snapshot.Update{Snapshot: snap, NameInfo: snapshot.NameInfo{Kind: snapshot.KindSnapshot, InstanceID: "other"}}
	zz.ClockStep()
	_, _, err = s.LoadOnce(ctx, env, "other", upd, header.TxnID(zz.LastTxnID(env)))
	zz.Assert(err == nil, "C11/insert/load-no-error")
	if err != nil {
		return
	}
	app, _ := zz.Dump(env, "foo")
	zz.Assert(len(app) == 6, "C11/insert/application-dbi-has-all-live-entries")
	for i := 0; i < 6; i++ {
		who := "local"
		if i%2 == 1 {
			who = "remote"
		}
		zz.Assert(bytes.Equal(vFind(app, mkKey(i)), mkVal(i, who)), "C11/insert/entry-present-with-its-value")
	}
	zz.Reach("C11/insert/done")
}
