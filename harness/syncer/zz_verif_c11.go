//go:build verif

package syncer

import (
	"bytes"
	"context"
	"time"

	"github.com/PowerDNS/lightningstream/config"
	zz "github.com/PowerDNS/lightningstream/internal/zzverif"
	"github.com/PowerDNS/lightningstream/lmdbenv/header"
	"github.com/PowerDNS/lightningstream/syncer/events"
	"github.com/PowerDNS/lightningstream/syncer/hooks"
	"github.com/PowerDNS/lmdb-go/lmdb"
	"github.com/sirupsen/logrus"
)

// vNewSyncer builds a Syncer around an environment without going through New()
// (no cleaner/health trackers: they are not used by the functions under test).
func vNewSyncer(env *lmdb.Env, native bool) *Syncer {
	lg := logrus.New()
	lg.SetLevel(logrus.PanicLevel)
	return &Syncer{
		name:           "db",
		env:            env,
		lc:             config.LMDB{SchemaTracksChanges: native},
		l:              lg,
		hooks:          hooks.New(),
		events:         events.New(),
		lastByInstance: map[string]time.Time{},
	}
}

// vAppEntry: one key of the application DBI in a state.
type vAppEntry struct {
	present bool
	val     []byte
}

func vNondetApp(name string, maxVal int) vAppEntry {
	k := zz.Choice(name, maxVal+2) // 0 = absent, 1.. = present with value length k-1
	if k == 0 {
		return vAppEntry{}
	}
	return vAppEntry{present: true, val: zz.NondetBytes(name+".val", k-1)}
}

func vFind(d []zz.KV, k []byte) []byte {
	for _, e := range d {
		if bytes.Equal(e.K, k) {
			return e.V
		}
	}
	return nil
}

// verifC11 drives the two real mirror passes over one application DBI with two keys:
// capture at t0, an arbitrary change set, capture at t1 > t0, projection.
func verifC11(integer bool, width int) {
	env := zz.NewEnv()
	s := vNewSyncer(env, false)
	ctx := context.Background()
	var flags uint
	nkeys := 2
	keys := make([][]byte, nkeys)
	if integer {
		flags = 0x08
		keys[0] = zz.NondetBytes("k0", width)
		keys[1] = zz.NondetBytes("k1", width)
	} else {
		keys[0] = zz.NondetBytes("k0", 1)
		keys[1] = zz.NondetBytes("k1", 1+zz.Choice("k1.len", 2))
	}
	zz.Assume(!bytes.Equal(keys[0], keys[1]))
	a0 := []vAppEntry{vNondetApp("a0.k0", 1), vNondetApp("a0.k1", 1)}
	a1 := []vAppEntry{vNondetApp("a1.k0", 1), vNondetApp("a1.k1", 1)}
	t0 := zz.NondetU64("t0")
	t1 := zz.NondetU64("t1")
	zz.Assume(zz.And(t0 > 0, t1 > t0))

	put := func(st []vAppEntry) error {
		return env.Update(func(txn *lmdb.Txn) error {
			dbi, err := txn.OpenDBI("d", lmdb.Create|flags)
			if err != nil {
				return err
			}
			for i, e := range st {
				if e.present {
					if err := txn.Put(dbi, keys[i], e.val, 0); err != nil {
						return err
					}
				} else {
					if err := txn.Del(dbi, keys[i], nil); err != nil && !lmdb.IsNotFound(err) {
						return err
					}
				}
			}
			return nil
		})
	}
	if err := put(a0); err != nil {
		zz.Assert(false, "harness/setup")
		return
	}
	// first capture
	err := env.Update(func(txn *lmdb.Txn) error { return s.mainToShadow(ctx, txn, header.Timestamp(t0)) })
	zz.Assert(err == nil, "C11/capture/valid-content-accepted")
	if err != nil {
		zz.Reach("C11/capture0-error")
		return
	}
	sh0, _ := zz.Dump(env, "_sync_shadow_d")
	// the application changes its data
	if err := put(a1); err != nil {
		zz.Assert(false, "harness/change")
		return
	}
	// second capture + projection, in one transaction like LoadOnce/SendOnce do
	var txnID uint64
	err = env.Update(func(txn *lmdb.Txn) error {
		txnID = uint64(txn.ID())
		if err := s.mainToShadow(ctx, txn, header.Timestamp(t1)); err != nil {
			return err
		}
		return s.shadowToMain(ctx, txn)
	})
	if err != nil {
		zz.Debug("cycle error", err)
	}
	zz.Assert(err == nil, "C11/cycle/valid-content-accepted")
	if err != nil {
		return
	}
	sh1, shExists := zz.Dump(env, "_sync_shadow_d")
	app, _ := zz.Dump(env, "d")
	zz.Assert(shExists, "C11/shadow-dbi-exists")
	live := 0
	for i := 0; i < nkeys; i++ {
		was := vFind(sh0, keys[i])
		now := vFind(sh1, keys[i])
		inApp := vFind(app, keys[i])
		appHas := false
		for _, e := range app {
			if bytes.Equal(e.K, keys[i]) {
				appHas = true
			}
		}
		if a1[i].present {
			live++
			unchanged := a0[i].present && bytes.Equal(a0[i].val, a1[i].val)
			zz.Assert(now != nil, "C11/capture/present-key-in-shadow")
			if now == nil {
				continue
			}
			if unchanged {
				zz.Assert(bytes.Equal(now, was), "C11/capture/untouched-keeps-bytes")
			} else {
				zz.Assert(vIsLogical(now, t1, false, a1[i].val), "C11/capture/change-stamped-with-detection-time")
				if len(now) >= 24 {
					_, txn := vTsTxn(now)
					zz.Assert(txn == txnID, "C14/txnid")
				}
			}
			// projection: the application still sees its own value
			if len(a1[i].val) == 0 {
				zz.Assert(appHas, "C11/project/live-empty-value-kept")
			} else {
				zz.Assert(appHas && bytes.Equal(inApp, a1[i].val), "C11/project/value")
			}
		} else {
			zz.Assert(!appHas, "C11/project/deleted-key-absent")
			if a0[i].present {
				// vanished: marker stamped with the detection time
				zz.Assert(now != nil, "C04/clean/marker-present")
				if now != nil {
					zz.Assert(vIsLogical(now, t1, true, nil), "C04/clean/marker-stamped")
				}
			} else {
				zz.Assert(now == nil, "C11/capture/never-present-key-has-no-entry")
			}
		}
	}
	zz.Assert(len(sh1) <= nkeys, "C11/capture/no-extra-shadow-entries")
	_ = live
	zz.Reach("C11/cycle/done")
}

func vTsTxn(b []byte) (ts, txn uint64) {
	for i := 0; i < 8; i++ {
		ts = ts<<8 | uint64(b[i])
		txn = txn<<8 | uint64(b[8+i])
	}
	return
}

func VerifC11Bytes() { verifC11(false, 0) }
func VerifC11Int4()  { verifC11(true, 4) }
func VerifC11Int8()  { verifC11(true, 8) }
