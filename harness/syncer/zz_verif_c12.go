//go:build verif

package syncer

import (
	"context"
	"time"

	"github.com/PowerDNS/lightningstream/config"
	zz "github.com/PowerDNS/lightningstream/internal/zzverif"
	"github.com/PowerDNS/lmdb-go/lmdb"
)

// VerifC12ReceiveOnly: an instance in receive-only mode never stores or deletes anything:
// the real constructor disables the cleaner and SendOnce skips the upload, in both modes.
func VerifC12ReceiveOnly() {
	native := zz.Choice("native", 2) == 1
	env := zz.NewEnv()
	st := &vStore{}
	s := vFullSyncer(env, st, "inst", native, func(c *config.Config, lc *config.LMDB, opt *Options) {
		opt.ReceiveOnly = true
		c.Storage.Cleanup = config.Cleanup{Enabled: true, Interval: time.Second, MustKeepInterval: 0, RemoveOldInstancesInterval: 0}
	})
	// old snapshots in the bucket that an enabled cleaner would remove
	_ = st.Store(context.Background(), "db__inst__20200101-000000-000000000__GX.pb.gz", []byte("x"))
	_ = st.Store(context.Background(), "db__inst__20200102-000000-000000000__GX.pb.gz", []byte("x"))
	st.log = nil
	err := env.Update(func(txn *lmdb.Txn) error {
		dbi, err := txn.OpenDBI("d", lmdb.Create)
		if err != nil {
			return err
		}
		if native {
			return txn.Put(dbi, []byte("k"), vStoredBytes(zz.NondetU64("ts"), 1, 0, 0, nil, []byte("v")), 0)
		}
		return txn.Put(dbi, []byte("k"), []byte("v"), 0)
	})
	if err != nil {
		zz.Assert(false, "harness/setup")
		return
	}
	_, err = s.SendOnce(context.Background(), env)
	zz.Assert(err == nil, "C12/receive-only/sendonce-no-error")
	for i := 0; i < 2; i++ {
		now := time.Unix(0, zz.NondetI64("now"))
		zz.Assert(s.cleaner.RunOnce(context.Background(), now) == nil, "C12/receive-only/cleaner-no-error")
	}
	zz.Assert(len(st.log) == 0, "C12/receive-only/no-list-store-delete")
	zz.Assert(len(st.names) == 2, "C12/receive-only/bucket-untouched")
	zz.Reach("C12/receive-only/done")
}
