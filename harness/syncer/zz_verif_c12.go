//go:build verif

package syncer

import (
	"context"
	"time"

	"github.com/PowerDNS/lightningstream/config"
	zz "github.com/PowerDNS/lightningstream/internal/zzverif"
	"github.com/PowerDNS/lightningstream/snapshot"
	"github.com/PowerDNS/lmdb-go/lmdb"
)

// VerifC12ReceiveOnly: an instance in receive-only mode never stores or deletes anything:
// the real constructor disables the cleaner and SendOnce skips the upload, in both modes.
func VerifC12ReceiveOnly() {
	native := zz.Choice("native", 2) == 1
	env := zz.NewEnv()
	st := &vStore{}
	s := vFullSyncer(env, st, "inst", native, func(c *config.Config, lc *config.LMDB, opt *Options) {
		opt.ReceiveOnly = true
		c.Storage.Cleanup = config.Cleanup{Enabled: true, Interval: time.Second, MustKeepInterval: 0, RemoveOldInstancesInterval: 0}
	})
	// old snapshots in the bucket that an enabled cleaner would remove
	_ = st.Store(context.Background(), "db__inst__20200101-000000-000000000__GX.pb.gz", []byte("x"))
	_ = st.Store(context.Background(), "db__inst__20200102-000000-000000000__GX.pb.gz", []byte("x"))
	st.log = nil
	err := env.Update(func(txn *lmdb.Txn) error {
		dbi, err := txn.OpenDBI("d", lmdb.Create)
		if err != nil {
			return err
		}
		if native {
			return txn.Put(dbi, []byte("k"), vStoredBytes(zz.NondetU64("ts"), 1, 0, 0, nil, []byte("v")), 0)
		}
		return txn.Put(dbi, []byte("k"), []byte("v"), 0)
	})
	if err != nil {
		zz.Assert(false, "harness/setup")
		return
	}
	_, err = s.SendOnce(context.Background(), env)
	zz.Assert(err == nil, "C12/receive-only/sendonce-no-error")
	for i := 0; i < 2; i++ {
		now := time.Unix(0, zz.NondetI64("now"))
		zz.Assert(s.cleaner.RunOnce(context.Background(), now) == nil, "C12/receive-only/cleaner-no-error")
	}
	zz.Assert(len(st.log) == 0, "C12/receive-only/no-list-store-delete")
	zz.Assert(len(st.names) == 2, "C12/receive-only/bucket-untouched")
	zz.Reach("C12/receive-only/done")
}

// VerifC15Sanitise: instance names whatsoever are reduced to the safe character set, so that
// the built snapshot name parses back to exactly the sanitised instance. Names are 3 characters
// over a representative alphabet (letter, capital, digit, dash, underscore, dot, space, slash);
// the regular expression itself is evaluated by the real regexp package (not encoded).
func VerifC15Sanitise() {
	alphabet := []byte{'a', 'Z', '0', '-', '_', '.', ' ', '/'}
	name := make([]byte, 3)
	name[0] = alphabet[zz.Shard(8)]
	name[1] = alphabet[zz.Choice("c1", 8)]
	name[2] = alphabet[zz.Choice("c2", 8)]
	env := zz.NewEnv()
	s := vFullSyncer(env, &vStore{}, string(name), true, nil)
	id := s.instanceID()
	zz.Assert(len(id) == 3, "C15/sanitise/length-kept")
	for i := 0; i < len(id); i++ {
		c := id[i]
		safe := (c >= 'a' && c <= 'z') || (c >= 'A' && c <= 'Z') || (c >= '0' && c <= '9') || c == '-'
		zz.Assert(safe, "C15/sanitise/only-safe-characters")
	}
	ni := snapshot.NameInfo{Extension: snapshot.DefaultExtension, SyncerName: "db", InstanceID: id, GenerationID: "GX", Timestamp: time.Unix(0, zz.NondetI64("ts")&(1<<62-1))}
	got, err := snapshot.ParseName(ni.BuildName())
	zz.Assert(err == nil, "C15/sanitise/name-of-any-instance-parses")
	if err == nil {
		zz.Assert(got.InstanceID == id && got.SyncerName == "db" && got.GenerationID == "GX", "C15/sanitise/components-survive")
	}
	zz.Reach("C15/sanitise/done")
}
