//go:build verif

package syncer

import (
	"bytes"
	"context"
	"time"

	"github.com/PowerDNS/lightningstream/config"
	zz "github.com/PowerDNS/lightningstream/internal/zzverif"
	"github.com/PowerDNS/lightningstream/snapshot"
	"github.com/PowerDNS/lightningstream/syncer/receiver"
	"github.com/PowerDNS/lmdb-go/lmdb"
)

// ----- loop-level harness: the real syncLoop with application commits at the yield points -----

// vLoopCtx is cancelled by the harness when the iteration bound is reached.
type vLoopCtx struct {
	cancelled bool
	done      chan struct{}
}

func vNewLoopCtx() *vLoopCtx { return &vLoopCtx{done: make(chan struct{})} }

func (c *vLoopCtx) cancel() {
	if !c.cancelled {
		c.cancelled = true
		close(c.done)
	}
}
func (c *vLoopCtx) Deadline() (time.Time, bool) { return time.Time{}, false }
func (c *vLoopCtx) Done() <-chan struct{}       { return c.done }
func (c *vLoopCtx) Err() error {
	if c.cancelled {
		return context.Canceled
	}
	return nil
}
func (c *vLoopCtx) Value(key any) any { return nil }

// vAppWrite is what the application committed for one key (its last write).
type vAppWrite struct {
	key    []byte
	val    []byte
	del    bool
	ts     uint64 // native mode: the timestamp the application wrote
	tclock int64  // the instant of the commit
	point  string
	iter   int
}

type vLoop struct {
	native     bool
	env        *lmdb.Env
	st         *vStore
	s          *Syncer
	r          *receiver.Receiver
	ctx        *vLoopCtx
	iter       int
	maxIter    int
	commitIter int // application commits only up to this iteration
	commits    int
	maxCommits int
	writes     []vAppWrite
	remoteTS   uint64
	remoteVal  []byte
	remoteName int
	newRemote  []int // iterations at whose top a new remote snapshot appears
	localTS    uint64
	storeFails int
	kinds      int
	twoRemotes bool
	localTS0   uint64 // native: timestamp of the initial local entry
	opp        int    // commit opportunities seen so far
	shardFirst int    // > 0: number of shards over the first commit's opportunity
	firstAt    int
}

// vLoopRemoteDel: the remote version of key "a" is a deletion marker (set by the stale-marker jobs).
var vLoopRemoteDel bool

func vRemoteSnapshot(ts uint64, val []byte) []byte {
	snap := &snapshot.Snapshot{FormatVersion: 3, CompatVersion: 1}
	snap.Meta.InstanceID = "other"
	snap.Meta.DatabaseName = "db"
	d := snapshot.NewDBISize(64)
	d.SetName("d")
	if vLoopRemoteDel {
		d.Append(snapshot.KV{Key: []byte("a"), TimestampNano: ts, Flags: 1})
	} else {
		d.Append(snapshot.KV{Key: []byte("a"), Value: val, TimestampNano: ts})
	}
	snap.Databases = append(snap.Databases, d)
	blob, _, err := snapshot.DumpData(snap)
	if err != nil {
		panic(err)
	}
	return blob
}

func (l *vLoop) addRemote() {
	l.remoteName++
	name := "db__other__20240101-00000" + string(rune('0'+l.remoteName)) + "-000000000__GX.pb.gz"
	ts := l.remoteTS
	if l.twoRemotes {
		ts += uint64(l.remoteName) // every snapshot of "other" carries newer data: each load commits
	}
	_ = l.st.Store(context.Background(), name, vRemoteSnapshot(ts, l.remoteVal))
	l.st.log = l.st.log[:len(l.st.log)-1] // not an upload of this instance
	if l.twoRemotes {
		// a second remote instance publishes in the same poll window
		name2 := "db__third__20240101-00000" + string(rune('0'+l.remoteName)) + "-000000000__GX.pb.gz"
		_ = l.st.Store(context.Background(), name2, vRemoteSnapshotKey("third", "t", l.remoteTS+uint64(l.remoteName), []byte{byte('0' + l.remoteName)}))
		l.st.log = l.st.log[:len(l.st.log)-1]
	}
}

func vRemoteSnapshotKey(inst, key string, ts uint64, val []byte) []byte {
	snap := &snapshot.Snapshot{FormatVersion: 3, CompatVersion: 1}
	snap.Meta.InstanceID = inst
	snap.Meta.DatabaseName = "db"
	d := snapshot.NewDBISize(64)
	d.SetName("d")
	d.Append(snapshot.KV{Key: []byte(key), Value: val, TimestampNano: ts})
	snap.Databases = append(snap.Databases, d)
	blob, _, err := snapshot.DumpData(snap)
	if err != nil {
		panic(err)
	}
	return blob
}

// vLoopOnlyKind, if >= 0, fixes the kind of application change (2 = delete of the only key).
var vLoopOnlyKind = -1

// appCommit lets the application commit one transaction.
func (l *vLoop) appCommit(point string) {
	kind := 0
	if l.kinds > 1 {
		kind = zz.Choice("app.kind", l.kinds)
	}
	if vLoopOnlyKind >= 0 {
		kind = vLoopOnlyKind
	}
	var w vAppWrite
	w.point, w.iter = point, l.iter
	w.tclock = zz.ClockRead()
	switch kind {
	case 0: // overwrite key "a"
		w.key, w.val = []byte("a"), zz.NondetBytes("app.val", 1)
	case 1: // insert key "c"
		w.key, w.val = []byte("c"), zz.NondetBytes("app.val", 1)
	default: // delete key "a"
		w.key, w.del = []byte("a"), true
	}
	if l.native {
		// the application stamps its write; its own writes are monotone per key
		w.ts = zz.NondetU64("app.ts")
		zz.Assume(w.ts > l.localTS)
		l.localTS = w.ts
	}
	noop := false
	err := l.env.Update(func(txn *lmdb.Txn) error {
		dbi, err := txn.OpenDBI("d", 0)
		if err != nil {
			return err
		}
		if l.native {
			var fl uint8
			if w.del {
				fl = 1
			}
			return txn.Put(dbi, w.key, vStoredBytes(w.ts, uint64(txn.ID()), fl, 0, nil, w.val), 0)
		}
		if w.del {
			err := txn.Del(dbi, w.key, nil)
			if lmdb.IsNotFound(err) {
				// deleting an absent key changes nothing (LMDB does not even record the empty
				// transaction): not an application change, the previous write stays the last one
				noop = true
				return nil
			}
			return err
		}
		// shadow mode detects changes by value: rewriting the value that is already there is
		// not a new version (indistinguishable from no write), so the write changes the value
		if cur, gerr := txn.Get(dbi, w.key); gerr == nil {
			zz.Assume(!bytes.Equal(cur, w.val))
		}
		return txn.Put(dbi, w.key, w.val, 0)
	})
	if err != nil {
		zz.Assert(false, "harness/app-commit")
		return
	}
	if noop {
		return
	}
	// keep the last write per key
	for i := range l.writes {
		if bytes.Equal(l.writes[i].key, w.key) {
			l.writes[i] = w
			return
		}
	}
	l.writes = append(l.writes, w)
}

func (l *vLoop) yield(point string) {
	switch point {
	case "loop-top":
		l.iter++
		zz.ClockStep() // the clock advances once per iteration (constant inside it)
		for _, it := range l.newRemote {
			if it == l.iter {
				l.addRemote()
			}
		}
		// the receiver and the downloaders do their work (played sequentially)
		l.r.VerifPlay(l.ctx, l.iter > 1, false)
	case "send-before-store":
		if l.storeFails > 0 {
			l.storeFails--
			l.st.failStore = 1
		}
		return
	case "loop-before-sleep":
		if l.iter >= l.maxIter {
			l.ctx.cancel()
		}
	case "load-before-txn", "send-before-txn":
		// every transaction of the syncer reads a strictly later clock than the previous one
		// (nanosecond clock; two captures stamped with the very same instant would be ordered
		// by the tie-break instead of by time - stated as an assumption)
		zz.ClockStep()
	}
	// the application may commit here
	if l.commits < l.maxCommits && l.iter <= l.commitIter && point != "loop-top" {
		l.opp++
		do := false
		if l.commits == 0 && l.shardFirst > 0 {
			// deep jobs: the opportunity at which the first commit happens is the sharding key
			// (a value beyond the last opportunity of the path = no commit)
			do = l.opp == l.firstAt
		} else {
			do = zz.Choice("app@"+point, 2) == 1
		}
		if do {
			l.commits++
			l.appCommit(point)
		}
	}
}

// vRunLoop builds the scenario and runs the real syncLoop until the iteration bound.
func vRunLoop(native bool, maxIter, commitIter, maxCommits, kinds int, newRemote []int, storeFails int) *vLoop {
	return vRunLoopOpt(native, false, maxIter, commitIter, maxCommits, kinds, newRemote, storeFails)
}

func vRunLoopOpt(native, receiveOnly bool, maxIter, commitIter, maxCommits, kinds int, newRemote []int, storeFails int) *vLoop {
	return vRunLoopOpt2(native, receiveOnly, false, maxIter, commitIter, maxCommits, kinds, newRemote, storeFails)
}

func vRunLoopOpt2(native, receiveOnly, twoRemotes bool, maxIter, commitIter, maxCommits, kinds int, newRemote []int, storeFails int) *vLoop {
	l := &vLoop{twoRemotes: twoRemotes, native: native, maxIter: maxIter, commitIter: commitIter, maxCommits: maxCommits, newRemote: newRemote, kinds: kinds, storeFails: storeFails}
	if l.shardFirst = zz.Param("loop.shard-first", 0); l.shardFirst > 0 && maxCommits > 0 {
		l.firstAt = 1 + zz.Shard(l.shardFirst)
	}
	l.env = zz.NewEnv()
	l.st = &vStore{}
	l.ctx = vNewLoopCtx()
	zz.ClockStep()
	ts0 := zz.NondetU64("local.ts")
	zz.Assume(ts0 > 0)
	l.localTS = ts0
	l.localTS0 = ts0
	err := l.env.Update(func(txn *lmdb.Txn) error {
		dbi, err := txn.OpenDBI("d", lmdb.Create)
		if err != nil {
			return err
		}
		if native {
			return txn.Put(dbi, []byte("a"), vStoredBytes(ts0, 1, 0, 0, nil, []byte("o")), 0)
		}
		return txn.Put(dbi, []byte("a"), []byte("o"), 0)
	})
	if err != nil {
		zz.Assert(false, "harness/setup")
		return nil
	}
	l.remoteTS = zz.NondetU64("remote.ts")
	zz.Assume(l.remoteTS > 0)
	if twoRemotes {
		zz.Assume(l.remoteTS < 1<<63)
	}
	l.remoteVal = zz.NondetBytes("remote.val", 1)
	l.addRemote()
	l.s = vFullSyncer(l.env, l.st, "inst", native, func(c *config.Config, lc *config.LMDB, opt *Options) {
		c.StoragePollInterval = time.Hour
		c.MemoryDecompressedSnapshots = 3
		c.MemoryDownloadedSnapshots = 3
		opt.ReceiveOnly = receiveOnly
		if vLoopRemoteDel {
			// sweeper enabled (retention 2 days; the marker's age is arbitrary): remote markers older
			// than the load cutoff are "stale" (its goroutine, natively, sleeps for the whole run)
			c.Sweeper = config.Sweeper{Enabled: true, RetentionDays: 2, Interval: time.Hour, FirstInterval: time.Hour}
		}
	})
	l.r = receiver.New(l.st, l.s.c, "db", l.s.l, "inst", l.s.events, l.s.hooks)
	l.r.VerifPrepare("other", "inst", "third")
	VerifYield = l.yield
	// the start-up listing and downloads
	l.r.VerifPlay(l.ctx, true, true)
	lerr := l.s.syncLoop(l.ctx, l.env, l.r)
	VerifYield = nil
	zz.Assert(lerr == context.Canceled, "harness/loop-ends-by-cancellation")
	return l
}

// newestOwn decodes the newest snapshot this instance uploaded.
func (l *vLoop) newestOwn() (map[string]vSnapEntry, bool) {
	name, blob := l.st.lastStored()
	if name == "" {
		return nil, false
	}
	msg, err := snapshot.LoadData(blob)
	if err != nil {
		return nil, false
	}
	out := map[string]vSnapEntry{}
	for _, d := range msg.Databases {
		if d.Name() != "d" {
			continue
		}
		es, _ := vEntries(d)
		for _, e := range es {
			out[string(e.key)] = e
		}
	}
	return out, true
}

// checkNotDestroyed is C03's oracle at the end of the run.
func (l *vLoop) checkNotDestroyed(tag0 string) {
	app, _ := zz.Dump(l.env, "d")
	for _, w := range l.writes {
		tag := tag0 + "@" + w.point // the label names the point at which the application committed
		cur := vFind(app, w.key)
		has := false
		for _, e := range app {
			if bytes.Equal(e.K, w.key) {
				has = true
			}
		}
		remoteHasKey := bytes.Equal(w.key, []byte("a"))
		if l.native {
			zz.Assert(has, "C03/"+tag+"/native/key-still-present")
			if !has {
				continue
			}
			cts, cdel, cval := vLogical(cur)
			own := zz.And(cts == w.ts, zz.And(cdel == w.del, zz.Or(w.del, bytes.Equal(cval, w.val))))
			superseded := zz.And(remoteHasKey, zz.And(l.remoteTS >= w.ts, zz.And(cts == l.remoteTS, bytes.Equal(cval, l.remoteVal))))
			if vLoopRemoteDel {
				superseded = zz.And(remoteHasKey, zz.And(l.remoteTS >= w.ts, zz.And(cts == l.remoteTS, cdel)))
			}
			zz.Assert(zz.Or(own, superseded), "C03/"+tag+"/native/write-kept-unless-superseded")
			continue
		}
		// shadow mode: the write is stamped at detection, which is not before the commit
		superseded := zz.And(remoteHasKey, zz.And(l.remoteTS >= uint64(w.tclock), zz.And(has, bytes.Equal(cur, l.remoteVal))))
		if vLoopRemoteDel {
			superseded = zz.And(remoteHasKey, zz.And(l.remoteTS >= uint64(w.tclock), !has))
		}
		if w.del {
			zz.Assert(zz.Or(!has, superseded), "C03/"+tag+"/shadow/delete-kept-unless-superseded")
		} else if len(w.val) == 0 {
			zz.Assert(zz.Or(has, superseded), "C03/"+tag+"/shadow/live-empty-value")
		} else {
			zz.Assert(zz.Or(zz.And(has, bytes.Equal(cur, w.val)), superseded), "C03/"+tag+"/shadow/write-kept-unless-superseded")
			// the same fact seen from the mirror: the change was captured and projected back
			zz.Assert(zz.Or(zz.And(has, bytes.Equal(cur, w.val)), superseded), "C11/"+tag+"/change-captured-and-projected")
		}
	}
}

// checkPublished is C09's oracle: the loop has been idle for two iterations.
func (l *vLoop) checkPublished(tag0 string) {
	if len(l.writes) == 0 {
		return
	}
	snap, ok := l.newestOwn()
	zz.Assert(ok, "C09/"+tag0+"/a-snapshot-was-uploaded")
	if !ok {
		return
	}
	for _, w := range l.writes {
		tag := tag0 + "@" + w.point
		e, has := snap[string(w.key)]
		remoteHasKey := bytes.Equal(w.key, []byte("a"))
		if l.native {
			zz.Assert(has, "C09/"+tag+"/native/key-in-newest-snapshot")
			if !has {
				continue
			}
			own := zz.And(e.ts == w.ts, zz.And((e.flags&1 != 0) == w.del, zz.Or(w.del, bytes.Equal(e.val, w.val))))
			newer := zz.And(remoteHasKey, zz.And(l.remoteTS >= w.ts, e.ts == l.remoteTS))
			zz.Assert(zz.Or(own, newer), "C09/"+tag+"/native/version-at-least-as-new-as-the-write")
			continue
		}
		zz.Assert(has, "C09/"+tag+"/shadow/key-in-newest-snapshot")
		if !has {
			continue
		}
		newer := zz.And(remoteHasKey, zz.And(l.remoteTS >= uint64(w.tclock), e.ts == l.remoteTS))
		if w.del {
			zz.Assert(zz.Or(e.flags&1 != 0, newer), "C09/"+tag+"/shadow/delete-published")
			// the same fact is C04's first clause: an application delete propagates as a marker
			zz.Assert(zz.Or(e.flags&1 != 0, newer), "C04/"+tag+"/shadow/delete-propagates-as-marker")
		} else {
			zz.Assert(zz.Or(zz.And(e.flags&1 == 0, bytes.Equal(e.val, w.val)), newer), "C09/"+tag+"/shadow/write-published")
		}
	}
}

// VerifLoopNative / VerifLoopShadow: start-up merge and upload, then a re-published remote
// snapshot (nothing newer) in iterations 2 and 3, one application commit at any yield point of
// iterations 1..3, two idle iterations at the end.
func VerifLoopNative() { verifLoop(true) }
func VerifLoopShadow() { verifLoop(false) }

func verifLoop(native bool) {
	// bounds a tier may raise: iterations, last iteration with a commit, commits, kinds of change
	l := vRunLoop(native, zz.Param("loop.iters", 5), zz.Param("loop.commit-iter", 3), zz.Param("loop.commits", 1), zz.Param("loop.kinds", 2), []int{2, 3}, 0)
	if l == nil {
		return
	}
	l.checkNotDestroyed("loop")
	l.checkPublished("loop")
	// C10-2: without an application commit, merging re-published content causes no upload
	if l.commits == 0 {
		zz.Assert(l.st.count("store", true) == 1, "C10/loop/no-echo-upload")
		zz.Reach("C10/loop/quiescent")
	}
	if l.commits >= 1 {
		zz.Reach("C03/loop/with-commit")
	}
	zz.Reach("C03/loop/done")
}

// VerifLoopStoreFailure: the same with a failing-then-succeeding Store.
func VerifLoopStoreFailureNative() {
	l := vRunLoop(true, 4, 2, 1, 1, []int{2}, 1)
	if l == nil {
		return
	}
	l.checkPublished("storefail")
	zz.Assert(l.st.count("store", false) > l.st.count("store", true), "harness/store-failed-once")
	zz.Reach("C09/storefail/done")
}

// VerifLoopShadowReceiveOnly: the same loop in receive-only mode (nothing is uploaded; local
// application writes must still not be destroyed by the merges).
func VerifLoopShadowReceiveOnly() {
	l := vRunLoopOpt(false, true, 5, 3, 1, 2, []int{2, 3}, 0)
	if l == nil {
		return
	}
	l.checkNotDestroyed("receiveonly")
	zz.Assert(l.st.count("store", false) == 0, "C12/receive-only/loop-never-stores")
	zz.Reach("C03/receiveonly/done")
}

func VerifLoopNativeReceiveOnly() {
	l := vRunLoopOpt(true, true, 4, 2, 1, 2, []int{2}, 0)
	if l == nil {
		return
	}
	l.checkNotDestroyed("receiveonly")
	zz.Assert(l.st.count("store", false) == 0, "C12/receive-only/loop-never-stores")
	zz.Reach("C03/receiveonly/done")
}

// VerifLoopTwoRemotes: two remote instances publish new data in the same poll window, so one
// pass of the loop loads two snapshots; no application commit: nothing may be uploaded after
// the start-up snapshot (C10), in both modes.
func verifLoopTwoRemotes(native bool) {
	l := vRunLoopOpt2(native, false, true, 4, 0, 0, 1, []int{2, 3}, 0)
	if l == nil {
		return
	}
	zz.Assert(l.st.count("store", true) == 1, "C10/loop/no-echo-upload-after-batch-load")
	app, _ := zz.Dump(l.env, "d")
	zz.Assert(vFind(app, []byte("t")) != nil, "C10/loop/both-remote-snapshots-merged")
	zz.Reach("C10/loop/tworemotes/done")
}

func VerifLoopTwoRemotesNative() { verifLoopTwoRemotes(true) }
func VerifLoopTwoRemotesShadow() { verifLoopTwoRemotes(false) }

// VerifLoopDeleteNative / VerifLoopDeleteShadow: the application change is a delete of the only
// key of the DBI (in shadow mode the DBI is empty afterwards) at any yield point of iterations
// 1..3: the delete is not reverted by syncing (C03), it is published as a deletion marker (C09).
func verifLoopDelete(native bool) {
	vLoopOnlyKind = 2
	l := vRunLoop(native, 5, 3, 1, 3, []int{2, 3}, 0)
	vLoopOnlyKind = -1
	if l == nil {
		return
	}
	l.checkNotDestroyed("loop")
	l.checkPublished("loop")
	if l.commits == 1 {
		zz.Reach("C03/loopdelete/with-commit")
	}
	zz.Reach("C03/loopdelete/done")
}

func VerifLoopDeleteNative() { verifLoopDelete(true) }
func VerifLoopDeleteShadow() { verifLoopDelete(false) }

// VerifLoopStaleMarkerNative / Shadow: the tomb sweeper is enabled (retention 2 days)
// and the other instance's version of the key is a deletion marker of arbitrary age (possibly
// older than the load cutoff, i.e. "stale"); one application overwrite or insert at any yield
// point. A stale marker never destroys a newer local write: last-writer-wins still decides.
func verifLoopStaleMarker(native bool) {
	vLoopRemoteDel = true
	l := vRunLoop(native, 4, 2, 1, 2, []int{2}, 0)
	vLoopRemoteDel = false
	if l == nil {
		return
	}
	vLoopRemoteDel = true
	l.checkNotDestroyed("loop")
	vLoopRemoteDel = false
	if len(l.writes) == 0 {
		// no application commit: the initial local entry (timestamp local.ts in native mode) is
		// an earlier committed write; it stays unless the marker is newer
		app, _ := zz.Dump(l.env, "d")
		cur := vFind(app, []byte("a"))
		if native {
			zz.Assert(cur != nil, "C03/stalemarker/native/initial-entry-or-marker-present")
			if cur != nil {
				cts, cdel, _ := vLogical(cur)
				zz.Assert(zz.Or(zz.And(cts == l.localTS0, !cdel), zz.And(l.remoteTS >= l.localTS0, zz.And(cts == l.remoteTS, cdel))), "C03/stalemarker/native/initial-entry-kept-unless-marker-newer")
			}
		}
	}
	zz.Reach("C03/stalemarker/done")
}

func VerifLoopStaleMarkerNative() { verifLoopStaleMarker(true) }
func VerifLoopStaleMarkerShadow() { verifLoopStaleMarker(false) }
