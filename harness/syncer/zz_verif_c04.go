//go:build verif

package syncer

import (
	"time"

	"github.com/PowerDNS/lightningstream/config"
	zz "github.com/PowerDNS/lightningstream/internal/zzverif"
	"github.com/PowerDNS/lightningstream/lmdbenv/header"
)

// VerifC04Config: sweeper retention vs. load cutoff over the whole configuration space.
// retention (the value RetentionDuration() returns) is an arbitrary non-negative int64,
// retention_load_cutoff_duration an arbitrary int64, instants are after 2001 and below 2^62 ns.
func VerifC04Config() {
	sw := config.Sweeper{
		Enabled:                     true,
		RetentionDays:               zz.RetentionDays(),
		RetentionLoadCutoffDuration: time.Duration(zz.NondetI64("loadcutoff")),
	}
	r := sw.RetentionDuration()
	rmc := sw.RetentionDurationMinusCutoff()
	zz.Assert(rmc <= r, "C04/config/load-retention-not-longer-than-sweep-retention")
	zz.Assert(rmc >= 0, "C04/config/load-retention-non-negative")
	// the safeguard: the load retention is at least a quarter of the retention
	zz.Assert(rmc >= r/4, "C04/config/safeguard-75-percent")

	s := &Syncer{c: config.Config{Sweeper: sw}}
	tLoad := zz.NondetI64("t_load")
	tSweep := zz.NondetI64("t_sweep")
	zz.Assume(zz.And(tSweep >= 1000000000000000000, zz.And(tSweep <= tLoad, tLoad < 1<<62)))
	loadCut := s.deletedCutoff(time.Unix(0, tLoad))

	ts := zz.NondetU64("marker.ts")
	zz.Assume(ts <= uint64(tSweep)) // the marker was written before the sweep

	// a marker younger than the load retention is not stale for the loader
	age := tLoad - int64(ts)
	zz.Assert(zz.Implies(age < int64(rmc), header.Timestamp(ts) >= loadCut), "C04/config/young-marker-not-stale-at-load")
	// a marker older than the retention at load time is stale for the loader
	zz.Assert(zz.Implies(age > int64(r), header.Timestamp(ts) < loadCut), "C04/config/expired-marker-stale-at-load")

	// disabled sweeper: nothing is ever stale
	s2 := &Syncer{c: config.Config{Sweeper: config.Sweeper{Enabled: false, RetentionDays: zz.RetentionDays()}}}
	zz.Assert(s2.deletedCutoff(time.Unix(0, tLoad)) == 0, "C04/config/disabled-sweeper-no-cutoff")
	zz.Reach("C04/config/end")
}
