//go:build verif

package syncer

import (
	"context"
	"time"

	"github.com/CrowdStrike/csproto"
	zz "github.com/PowerDNS/lightningstream/internal/zzverif"
	"github.com/PowerDNS/lightningstream/lmdbenv/header"
	"github.com/PowerDNS/lightningstream/lmdbenv/strategy"
	"github.com/PowerDNS/lightningstream/snapshot"
	"github.com/PowerDNS/lmdb-go/lmdb"
)

// VerifSelftestPure: concrete seed-derived inputs through the pure functions.
func VerifSelftestPure() {
	zz.SeedRng(1)
	for i := 0; i < 12; i++ {
		nm := "pure" + string(rune('a'+i))
		// header round trip + merge
		fl := uint8(zz.Rand())
		val := zz.RandBytes(zz.RandN(4))
		if len(val) > 0 {
			fl &^= 1
		}
		stored := vStoredBytes(zz.Rand()>>uint(zz.RandN(60)), zz.Rand(), fl, zz.RandN(3), zz.RandBytes(16)[:8*0], val)
		h, rest, err := header.Parse(stored)
		zz.RecordErr(nm+".parse.err", err)
		zz.RecordU64(nm+".parse.ts", uint64(h.Timestamp))
		zz.Record(nm+".parse.rest", rest)
		in := vIncoming{ts: zz.Rand() >> uint(zz.RandN(60)), flags: uint32(zz.Rand()) & 3, val: zz.RandBytes(zz.RandN(3))}
		if zz.RandN(3) == 0 {
			in.ts = uint64(h.Timestamp)
		}
		if len(in.val) > 0 {
			in.flags &^= 1
		}
		fv := uint32(1 + zz.RandN(3))
		r := vMerge(stored, in, fv, zz.Rand()>>uint(zz.RandN(64)), 0, zz.RandN(2) == 1)
		zz.Record(nm+".merge", r)
		r0 := vMerge(nil, in, fv, 0, zz.Rand()|1, false)
		zz.Record(nm+".merge-absent", r0)
		// varint summaries vs. the real functions
		v := zz.Rand() >> uint(zz.RandN(64))
		zz.RecordU64(nm+".sizeofvarint", uint64(csproto.SizeOfVarint(v)))
		buf := make([]byte, 12)
		n := csproto.EncodeVarint(buf, v)
		zz.Record(nm+".encodevarint", buf[:n])
		dv, dn, derr := csproto.DecodeVarint(buf[:n])
		zz.RecordU64(nm+".decodevarint", dv+uint64(dn))
		zz.RecordErr(nm+".decodevarint.err", derr)
		// dupsort hack
		e := snapshot.KV{Key: zz.RandBytes(1 + zz.RandN(3)), Value: zz.RandBytes(zz.RandN(4)), Flags: uint32(zz.RandN(2))}
		enc, eerr := dupSortHackEncodeOne(e)
		zz.RecordErr(nm+".dsh.err", eerr)
		zz.Record(nm+".dsh.key", enc.Key)
		dec, derr2 := dupSortHackDecodeOne(snapshot.KV{Key: zz.RandBytes(6 + zz.RandN(3)), Value: e.Value})
		zz.RecordErr(nm+".dshdec.err", derr2)
		zz.Record(nm+".dshdec.key", dec.Key)
		// codec
		d := snapshot.NewDBISize(32)
		d.SetName(string(zz.RandBytes(zz.RandN(3))))
		d.SetFlags(zz.Rand() >> uint(zz.RandN(64)))
		kv := snapshot.KV{Key: zz.RandBytes(1 + zz.RandN(3)), Value: zz.RandBytes(zz.RandN(200)), TimestampNano: zz.Rand() >> uint(zz.RandN(64)), Flags: uint32(zz.Rand()) >> uint(zz.RandN(32))}
		d.Append(kv)
		data := d.Marshal()
		zz.Record(nm+".dbi", data)
		// decode arbitrary bytes
		var kv2 snapshot.KV
		uerr := kv2.Unmarshal(zz.RandBytes(zz.RandN(10)))
		zz.RecordErr(nm+".kvunmarshal.err", uerr)
		zz.Record(nm+".kvunmarshal.key", kv2.Key)
		// names with real time formatting
		ni := snapshot.NameInfo{Extension: snapshot.DefaultExtension, SyncerName: "db", InstanceID: "i", GenerationID: "GX",
			Timestamp: time.Unix(0, int64(zz.Rand()>>2))}
		name := ni.BuildName()
		zz.Record(nm+".name", []byte(name))
		pn, perr := snapshot.ParseName(name)
		zz.RecordErr(nm+".parsename.err", perr)
		zz.RecordU64(nm+".parsename.ts", uint64(pn.Timestamp.UnixNano()))
	}
}

type vSelfIter struct {
	keys [][]byte
	vals [][]byte
	cur  int
}

func (it *vSelfIter) Next() ([]byte, error) {
	it.cur++
	if it.cur > len(it.keys) {
		return nil, vEOF()
	}
	return it.keys[it.cur-1], nil
}
func (it *vSelfIter) Merge(old []byte) ([]byte, error) {
	v := it.vals[it.cur-1]
	if len(v) == 0 {
		return nil, nil
	}
	if v[0]&1 == 1 && len(old) > 0 {
		return old, nil
	}
	return v, nil
}
func (it *vSelfIter) Clean(old []byte) ([]byte, error) {
	if len(old) > 0 && old[0]&1 == 1 {
		return nil, nil
	}
	return old, nil
}

// VerifSelftestLMDB: concrete random operation sequences through the strategies and the
// mirror passes: natively on real LMDB, in the engine on the model (validates the model too).
func VerifSelftestLMDB() {
	zz.SeedRng(2)
	for round := 0; round < 6; round++ {
		nm := "lmdb" + string(rune('a'+round))
		env := zz.NewEnv()
		integer := round%3 == 2
		var flags uint
		klen := 1 + zz.RandN(2)
		if integer {
			flags, klen = 0x08, 4
		}
		_ = env.Update(func(txn *lmdb.Txn) error {
			dbi, err := txn.OpenDBI("d", lmdb.Create|flags)
			if err != nil {
				return err
			}
			for i := 0; i < 4; i++ {
				k := zz.RandBytes(klen)
				k[0] &= 3
				if err := txn.Put(dbi, k, zz.RandBytes(1+zz.RandN(2)), 0); err != nil {
					zz.RecordErr(nm+".put.err", err)
				}
			}
			return nil
		})
		// sorted distinct input keys
		it := &vSelfIter{}
		if integer {
			for v := 0; v < 3; v++ {
				k := []byte{byte(v * (1 + zz.RandN(2))), 0, 0, 0}
				if len(it.keys) > 0 && it.keys[len(it.keys)-1][0] >= k[0] {
					continue
				}
				it.keys = append(it.keys, k)
				it.vals = append(it.vals, zz.RandBytes(zz.RandN(3)))
			}
		} else {
			for v := 0; v < 4; v++ {
				if zz.RandN(2) == 0 {
					continue
				}
				it.keys = append(it.keys, []byte{byte(v)}[:1])
				it.vals = append(it.vals, zz.RandBytes(zz.RandN(3)))
			}
		}
		strat := round % 3
		err := env.Update(func(txn *lmdb.Txn) error {
			dbi, err := txn.OpenDBI("d", 0)
			if err != nil {
				return err
			}
			switch strat {
			case 0:
				return strategy.Update(txn, dbi, it)
			case 1:
				return strategy.IterUpdate(txn, dbi, it)
			}
			return strategy.EmptyPut(txn, dbi, it)
		})
		zz.RecordErr(nm+".strategy.err", err)
		d, _ := zz.Dump(env, "d")
		for i, kv := range d {
			zz.Record(nm+".k"+string(rune('0'+i)), kv.K)
			zz.Record(nm+".v"+string(rune('0'+i)), kv.V)
		}
		zz.RecordU64(nm+".lasttxn", uint64(zz.LastTxnID(env)))
		// empty write transaction: id reuse
		_ = env.Update(func(txn *lmdb.Txn) error {
			zz.RecordU64(nm+".emptytxn.id", uint64(txn.ID()))
			_, err := txn.OpenDBI("d", lmdb.Create|flags)
			return err
		})
		zz.RecordU64(nm+".lasttxn-after-empty", uint64(zz.LastTxnID(env)))
		// mirror cycle on the same data
		s := vNewSyncer(env, false)
		cerr := env.Update(func(txn *lmdb.Txn) error {
			if err := s.mainToShadow(context.Background(), txn, header.Timestamp(1000+uint64(round))); err != nil {
				return err
			}
			return s.shadowToMain(context.Background(), txn)
		})
		zz.RecordErr(nm+".cycle.err", cerr)
		sh, _ := zz.Dump(env, "_sync_shadow_d")
		for i, kv := range sh {
			zz.Record(nm+".sk"+string(rune('0'+i)), kv.K)
			if len(kv.V) >= 24 {
				zz.Record(nm+".sv"+string(rune('0'+i)), append(append([]byte{}, kv.V[:8]...), kv.V[16:]...)) // without the txn id
			}
		}
		d2, _ := zz.Dump(env, "d")
		zz.RecordU64(nm+".after-cycle.n", uint64(len(d2)))
	}
}
