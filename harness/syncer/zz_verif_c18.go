//go:build verif

package syncer

import (
	"bytes"
	"context"
	"time"

	"github.com/PowerDNS/lightningstream/config"
	zz "github.com/PowerDNS/lightningstream/internal/zzverif"
	"github.com/PowerDNS/lightningstream/lmdbenv"
	"github.com/PowerDNS/lightningstream/lmdbenv/dbiflags"
	"github.com/PowerDNS/lightningstream/snapshot"
	"github.com/PowerDNS/lmdb-go/lmdb"
)

// vCtx is a context whose Done channel closes at the cancelAt-th poll (0 = never).
type vCtx struct {
	polls    int
	cancelAt int
	closed   chan struct{}
	open     chan struct{}
}

func vNewCtx(cancelAt int) *vCtx {
	c := &vCtx{cancelAt: cancelAt, closed: make(chan struct{}), open: make(chan struct{})}
	close(c.closed)
	return c
}

func (c *vCtx) Deadline() (time.Time, bool) { return time.Time{}, false }
func (c *vCtx) Done() <-chan struct{} {
	c.polls++
	if c.cancelAt != 0 && c.polls >= c.cancelAt {
		return c.closed
	}
	return c.open
}
func (c *vCtx) Err() error {
	if c.cancelAt != 0 && c.polls >= c.cancelAt {
		return context.Canceled
	}
	return nil
}
func (c *vCtx) Value(key any) any { return nil }

type vDBIDump struct {
	name    string
	flags   uint
	entries []zz.KV
}

// vDumpAll reads the complete committed LMDB content through the public API.
func vDumpAll(env *lmdb.Env) []vDBIDump {
	var names []string
	var flags []uint
	_ = env.View(func(txn *lmdb.Txn) error {
		ns, err := lmdbenv.ReadDBINames(txn)
		if err != nil {
			return err
		}
		for _, n := range ns {
			dbi, err := txn.OpenDBI(n, 0)
			if err != nil {
				return err
			}
			f, _ := txn.Flags(dbi)
			names = append(names, n)
			flags = append(flags, f)
		}
		return nil
	})
	var out []vDBIDump
	for i, n := range names {
		e, _ := zz.Dump(env, n)
		out = append(out, vDBIDump{n, flags[i], e})
	}
	return out
}

func vSameDump(a, b []vDBIDump) bool {
	if len(a) != len(b) {
		return false
	}
	same := true
	for i := range a {
		if a[i].name != b[i].name || a[i].flags != b[i].flags || len(a[i].entries) != len(b[i].entries) {
			return false
		}
		for j := range a[i].entries {
			same = zz.And(same, zz.And(bytes.Equal(a[i].entries[j].K, b[i].entries[j].K), bytes.Equal(a[i].entries[j].V, b[i].entries[j].V)))
		}
	}
	return same
}

func vSnapDBI(name string, flags uint64, transform string, kvs []snapshot.KV) *snapshot.DBI {
	d := snapshot.NewDBISize(256)
	d.SetName(name)
	d.SetFlags(flags)
	d.SetTransform(transform)
	for _, kv := range kvs {
		d.Append(kv)
	}
	// hand over a decoded copy, as the receiver does
	nd, err := snapshot.NewDBIFromData(d.Marshal())
	if err != nil {
		panic(err)
	}
	return nd
}

// verifC18 merges an arbitrary small snapshot with an arbitrary fault and checks all-or-nothing.
// scenario: 0 = versions/transforms/flags, 1 = LMDB fault at any mutating operation,
// 2 = malformed entry in the second DBI, 3 = cancellation at any poll.
func verifC18(native bool, scenario int) {
	env := zz.NewEnv()
	st := &vStore{}
	overrideFlags := false
	if scenario == 0 && !native {
		overrideFlags = zz.Choice("override", 2) == 1
	}
	s := vFullSyncer(env, st, "inst", native, func(c *config.Config, lc *config.LMDB, opt *Options) {
		if overrideFlags {
			f := dbiflags.Flags(0)
			lc.DBIOptions = map[string]config.DBIOptions{"e": {OverrideCreateFlags: &f}}
		}
	})
	// existing content: DBI "d" with one entry
	err := env.Update(func(txn *lmdb.Txn) error {
		dbi, err := txn.OpenDBI("d", lmdb.Create)
		if err != nil {
			return err
		}
		if native {
			return txn.Put(dbi, []byte("a"), vStoredBytes(100, 1, 0, 0, nil, []byte("o")), 0)
		}
		if err := txn.Put(dbi, []byte("a"), []byte("o"), 0); err != nil {
			return err
		}
		sh, err := txn.OpenDBI("_sync_shadow_d", lmdb.Create)
		if err != nil {
			return err
		}
		return txn.Put(sh, []byte("a"), vStoredBytes(100, 1, 0, 0, nil, []byte("o")), 0)
	})
	if err != nil {
		zz.Assert(false, "harness/setup")
		return
	}
	fv, cv := uint32(3), uint32(1)
	transform := ""
	var eflags uint64
	if scenario == 0 {
		sh := zz.Shard(25)
		fv = uint32(sh % 5)
		cv = uint32(sh / 5)
		transform = []string{"", snapshot.TransformDupSortHackV1, "rot13"}[zz.Choice("transform", 3)]
		eflags = []uint64{0, 4, 8}[zz.Choice("eflags", 3)]
	}
	v1 := zz.NondetBytes("in.a.val", zz.Choice("in.a.len", 2))
	kvA := snapshot.KV{Key: []byte("a"), Value: v1, TimestampNano: zz.NondetU64("in.a.ts")}
	kvB := snapshot.KV{Key: []byte("b"), Value: []byte("n"), TimestampNano: 7}
	kvE := snapshot.KV{Key: []byte("kkkk"), Value: []byte("e"), TimestampNano: 9}
	snap := &snapshot.Snapshot{FormatVersion: fv, CompatVersion: cv}
	snap.Meta.InstanceID = "other"
	snap.Databases = append(snap.Databases, vSnapDBI("d", 0, "", []snapshot.KV{kvA, kvB}))
	snap.Databases = append(snap.Databases, vSnapDBI("_sync_private", 0, "", []snapshot.KV{kvB}))
	var kvZ, kvF snapshot.KV
	if scenario == 2 {
		// DBI "e": a good entry, then an entry with a valid length prefix around ARBITRARY bytes
		// (3..4 of them: truncated fields, unknown fields of any wire type, bad varints, ...),
		// then another good entry; DBI "f" follows. shape 0 keeps the fixed overrunning entry.
		kvZ = snapshot.KV{Key: []byte("zzzz"), Value: []byte("z"), TimestampNano: 9}
		kvF = snapshot.KV{Key: []byte("f"), Value: []byte("f"), TimestampNano: 9}
		m1 := vSnapDBI("e", 0, "", []snapshot.KV{kvE}).Marshal()
		m2 := vSnapDBI("e", 0, "", []snapshot.KV{kvE, kvZ}).Marshal()
		tail := m2[len(m1):]
		bad := append([]byte{}, m1...)
		if zz.Choice("bad.shape", 2) == 0 {
			bad = append(bad, 0x12, 0x05, 0x0a, 0x01)
		} else {
			n := 3 + zz.Choice("bad.len", 2)
			bad = append(bad, 0x12, byte(n))
			bad = append(bad, zz.NondetBytes("bad", n)...)
			bad = append(bad, tail...)
		}
		d, err := snapshot.NewDBIFromData(bad)
		if err != nil {
			zz.Reach("C18/malformed-rejected-at-decode")
			return
		}
		snap.Databases = append(snap.Databases, d)
		snap.Databases = append(snap.Databases, vSnapDBI("f", 0, "", []snapshot.KV{kvF}))
	} else {
		snap.Databases = append(snap.Databases, vSnapDBI("e", eflags, transform, []snapshot.KV{kvE}))
	}
	cancelAt := 0
	if scenario == 3 {
		cancelAt = 1 + zz.Choice("cancel.at", 4)
	}
	ctx := vNewCtx(cancelAt)
	if scenario == 1 {
		zz.SetFault(env, 1+zz.Choice("fault.at", 8))
	}
	before := vDumpAll(env)
	txn0 := zz.LastTxnID(env)
	_, updates0 := zz.TxnCounts(env)
	upd := snapshot.Update{Snapshot: snap, NameInfo: snapshot.NameInfo{Kind: snapshot.KindSnapshot, InstanceID: "other"}}
	_, _, lerr := s.LoadOnce(ctx, env, "other", upd, 0)
	zz.SetFault(env, 0)
	_, updates1 := zz.TxnCounts(env)
	after := vDumpAll(env)
	if zz.Symbolic() {
		zz.Assert(updates1-updates0 == 1, "C18/one-write-transaction")
	}
	if lerr != nil {
		zz.Assert(vSameDump(before, after), "C18/failed-merge-leaves-lmdb-untouched")
		zz.Assert(zz.LastTxnID(env) == txn0, "C18/failed-merge-no-new-transaction")
		zz.Reach("C18/failed")
	}
	refused := fv == 0 || cv > 3
	if scenario == 0 {
		zz.Assert(zz.Implies(refused, lerr != nil), "C18/version-gate/refused")
		badTransform := transform == "rot13" || (native && transform != "") ||
			(fv >= 3 && ((eflags&4 != 0) != (transform == snapshot.TransformDupSortHackV1))) ||
			(!native && eflags&4 != 0 && !overrideFlags) // dupsort DBI created on an instance without dupsort_hack: refused
		zz.Assert(zz.Implies(badTransform, lerr != nil), "C18/transform/inconsistent-refused")
		unsafeCreate := !native && fv < 3 && !overrideFlags
		zz.Assert(zz.Implies(unsafeCreate, lerr != nil), "C18/create/pre-v3-without-override-refused")
		ok := !refused && !badTransform && !unsafeCreate
		zz.Assert(zz.Implies(ok, lerr == nil), "C18/valid-snapshot-accepted")
	}
	if scenario == 2 {
		// all or nothing: either the merge fails (and nothing was committed, asserted above), or
		// the arbitrary bytes were a decodable entry and then everything after them was merged too:
		// a decode problem in the middle of a DBI is never taken for the end of that DBI
		if lerr == nil {
			ee, _ := zz.Dump(env, "e")
			ff, _ := zz.Dump(env, "f")
			zz.Assert(vFind(ee, kvE.Key) != nil, "C18/malformed/entries-before-merged")
			zz.Assert(vFind(ee, kvZ.Key) != nil, "C18/malformed/no-silent-truncation-of-the-dbi")
			zz.Assert(vFind(ff, kvF.Key) != nil, "C18/malformed/later-dbis-merged")
			zz.Reach("C18/malformed/accepted-as-entry")
		} else {
			zz.Reach("C18/malformed/reported")
		}
	}
	if scenario == 3 && ctx.Err() != nil {
		// the context was seen cancelled by one of the polls made during the merge
		zz.Assert(lerr != nil, "C18/cancellation-reported")
		zz.Reach("C18/cancelled")
	}
	if lerr == nil {
		// private DBIs of the snapshot are ignored
		for _, d := range after {
			zz.Assert(d.name != "_sync_private", "C18/private-dbi-ignored")
		}
		// documented meaning of the merged entry for key "a" (stored ts vs incoming ts)
		target := "d"
		if !native {
			target = "_sync_shadow_d"
		}
		ents, _ := zz.Dump(env, target)
		ra := vFind(ents, []byte("a"))
		zz.Assert(ra != nil, "C18/merged/key-a-present")
		if ra != nil {
			rts, rdel, rval := vLogical(ra)
			inDel := fv < 2 && len(v1) == 0
			var oldTS uint64
			for _, d := range before {
				if d.name == target {
					oldTS, _, _ = vLogical(vFind(d.entries, []byte("a")))
				}
			}
			zz.Assert(zz.Implies(kvA.TimestampNano > oldTS, zz.And(rts == kvA.TimestampNano, rdel == inDel)), "C18/merged/newer-wins-with-version-semantics")
			zz.Assert(zz.Implies(zz.And(kvA.TimestampNano > oldTS, !inDel), bytes.Equal(rval, v1)), "C18/merged/value")
			zz.Assert(zz.Implies(kvA.TimestampNano < oldTS, rts == oldTS), "C18/merged/older-ignored")
		}
		zz.Reach("C18/merged")
	}
	zz.Reach("C18/end")
}

func VerifC18VersionsNative()  { verifC18(true, 0) }
func VerifC18VersionsShadow()  { verifC18(false, 0) }
func VerifC18FaultNative()     { verifC18(true, 1) }
func VerifC18FaultShadow()     { verifC18(false, 1) }
func VerifC18MalformedNative() { verifC18(true, 2) }
func VerifC18CancelShadow()    { verifC18(false, 3) }
func VerifC18CancelNative()    { verifC18(true, 3) }

// VerifC18V1Meaning: a format-version-1 entry with an empty value has the documented meaning
// of a deletion in every merge decision: merging it gives byte for byte the result of merging
// the equivalent current-format entry that carries the deleted flag - from any stored value,
// for any timestamps and any stale-deletion cutoff.
func VerifC18V1Meaning() {
	ts := zz.NondetU64("in.ts")
	cutoff := zz.NondetU64("cutoff")
	v1 := vIncoming{ts: ts, flags: zz.NondetU32("in.flags") &^ 1}
	v3 := vIncoming{ts: ts, flags: v1.flags | 1}
	var s []byte
	if zz.Choice("stored", 2) == 1 {
		s = vNondetStored("s", 1, 1)
	}
	r1 := vMerge(s, v1, 1, cutoff, 0, false)
	r3 := vMerge(s, v3, 3, cutoff, 0, false)
	zz.Assert((r1 == nil) == (r3 == nil), "C18/v1-empty-value/same-presence-as-deleted-flag")
	if r1 != nil && r3 != nil {
		zz.Assert(bytes.Equal(r1, r3), "C18/v1-empty-value/same-result-as-deleted-flag")
		_, del, _ := vLogical(r1)
		_, sdel, _ := vLogical(r3)
		zz.Assert(del == sdel, "C18/v1-empty-value/same-liveness")
	}
	zz.Reach("C18/v1/done")
}
