//go:build verif

package zzverif

import (
	"os"
	"strconv"
)

// ----- translator validation ("selftest") -----
// Selftest harnesses push concrete, seed-derived inputs through the real functions and
// Record the results. They run twice: natively (go test) and inside the symbolic executor
// with concrete values; ./check selftest fails on any difference. This is how encoder,
// intrinsic and model bugs are caught before they turn into a false "holds".

var (
	rngState uint64
	Records  = map[string]string{}
	RecOrder []string
)

// Seed returns VERIF_SEED (intercepted by the engine, which has its own copy).
func Seed() uint64 {
	v, _ := strconv.ParseUint(os.Getenv("VERIF_SEED"), 10, 64)
	return v
}

// SeedRng initialises the deterministic generator (pure Go: executed identically by the engine).
func SeedRng(salt uint64) {
	rngState = (Seed()+1)*0x9E3779B97F4A7C15 ^ salt*0xBF58476D1CE4E5B9
	if rngState == 0 {
		rngState = 1
	}
}

// Rand is xorshift64*.
func Rand() uint64 {
	x := rngState
	x ^= x >> 12
	x ^= x << 25
	x ^= x >> 27
	rngState = x
	return x * 2685821657736338717
}

func RandN(n int) int { return int(Rand() % uint64(n)) }

func RandBytes(n int) []byte {
	b := make([]byte, n)
	for i := range b {
		b[i] = byte(Rand())
	}
	return b
}

const hexdigits = "0123456789abcdef"

// Record stores one result (native) / reports it to the engine (which requires it concrete).
func Record(name string, data []byte) {
	out := make([]byte, 0, 2*len(data))
	for _, c := range data {
		out = append(out, hexdigits[c>>4], hexdigits[c&15])
	}
	Records[name] = string(out)
	RecOrder = append(RecOrder, name)
}

func RecordU64(name string, v uint64) {
	var b [8]byte
	for i := 0; i < 8; i++ {
		b[i] = byte(v >> (56 - 8*uint(i)))
	}
	Record(name, b[:])
}

func RecordErr(name string, err error) {
	if err == nil {
		Record(name, []byte{0})
	} else {
		Record(name, []byte{1})
	}
}
