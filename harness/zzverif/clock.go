//go:build verif

package zzverif

import (
	"time"

	"github.com/PowerDNS/lmdb-go/lmdb"
)

func timeNowNano() int64 { return time.Now().UnixNano() }
func sleepMicro()        { time.Sleep(2 * time.Microsecond) }

// TxnCounts returns the number of View and Update calls seen by the model
// (natively 0, 0: the oracle using it is guarded by Symbolic()).
func TxnCounts(env *lmdb.Env) (views, updates int) { return 0, 0 }

// MTxnCounts is the model side of TxnCounts.
func MTxnCounts(env *lmdb.Env) (views, updates int) {
	e := MEnvOf(env)
	return e.NViews, e.NUpdates
}

// SetFault makes the n-th mutating LMDB operation from now on fail with MDB_MAP_FULL
// (0 = no fault). Natively a no-op: a fault at an exact operation cannot be forced on real LMDB.
func SetFault(env *lmdb.Env, n int) {}

// MSetFault is the model side of SetFault.
func MSetFault(env *lmdb.Env, n int) {
	e := MEnvOf(env)
	if n <= 0 {
		e.FaultAt = 0
		return
	}
	e.FaultAt = e.NOps + n
}

// RetentionDaysRel is RetentionDays for harnesses whose data is expressed relative to "now":
// natively the setting is chosen so that RetentionDuration() - now is what it was in the
// counterexample (cexNow names the counterexample's clock value), up to float32 rounding.
func RetentionDaysRel(cexNow string) float32 {
	r := int64(replayVals["retention"]) - int64(replayVals[cexNow]) + time.Now().UnixNano()
	return float32(float64(r) / 86400e9)
}

// LocalZone makes the process's local time zone an arbitrary fixed offset between UTC-12 and
// UTC+14 (time.Now, time.Unix and Time.Local return times in it). Natively time.Local is set
// to the counterexample's offset.
func LocalZone() {
	time.Local = time.FixedZone("cex", int(int64(replayVals["tz.offset"])))
}
