//go:build verif

package zzverif

import (
	"time"

	"github.com/PowerDNS/lmdb-go/lmdb"
)

func timeNowNano() int64 { return time.Now().UnixNano() }
func sleepMicro()        { time.Sleep(2 * time.Microsecond) }

// TxnCounts returns the number of View and Update calls seen by the model
// (natively 0, 0: the oracle using it is guarded by Symbolic()).
func TxnCounts(env *lmdb.Env) (views, updates int) { return 0, 0 }

// MTxnCounts is the model side of TxnCounts.
func MTxnCounts(env *lmdb.Env) (views, updates int) {
	e := MEnvOf(env)
	return e.NViews, e.NUpdates
}
