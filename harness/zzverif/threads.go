//go:build verif

package zzverif

import (
	"sync"
	"time"
)

var nativeWG sync.WaitGroup

// natively the threads started since the last Settle/WaitThreads wait behind a gate and start
// together when the main thread settles or waits (a legal schedule; it makes schedule-dependent
// counterexamples likely to reproduce when the replay is repeated)
var nativeGate = make(chan struct{})

func openGate() {
	close(nativeGate)
	nativeGate = make(chan struct{})
}

// Go starts a thread. Under the engine (thread mode) it is a cooperative thread whose
// interleavings with all other threads are explored; natively a goroutine.
func Go(name string, fn func()) {
	nativeWG.Add(1)
	g := nativeGate
	go func() {
		defer nativeWG.Done()
		<-g
		fn()
	}()
}

// WaitThreads waits until every thread started with Go has finished. Under the engine a state
// in which that can never happen is a deadlock, reported under label; natively a two-second
// timeout stands for "blocked forever".
func WaitThreads(label string) {
	openGate()
	done := make(chan struct{})
	go func() { nativeWG.Wait(); close(done) }()
	select {
	case <-done:
	case <-time.After(2 * time.Second):
		Failures = append(Failures, label)
		nativeWG = sync.WaitGroup{}
	}
}

// Settle lets the threads started so far run until each is finished or blocked
// (natively: a short sleep).
func Settle() { openGate(); time.Sleep(SettleTime) }

// SettleTime is the native stand-in for "until every thread is finished or blocked".
var SettleTime = 50 * time.Millisecond

// Yield is a scheduling point.
func Yield() { time.Sleep(time.Millisecond) }

type crashSignal struct{}

// Crash stops the run of the code under test at this point (an instance being killed):
// control returns to the enclosing Try. Deferred functions of the stopped code do not run
// under the engine (a killed process runs none either).
func Crash() { panic(crashSignal{}) }

// Try runs fn and reports whether it was stopped by Crash.
func Try(fn func()) (crashed bool) {
	defer func() {
		if r := recover(); r != nil {
			if _, ok := r.(crashSignal); ok {
				crashed = true
				return
			}
			panic(r)
		}
	}()
	fn()
	return false
}

// NativeRepeat is the number of times a scenario whose outcome depends on Go's random map
// iteration order is repeated natively (under the engine the order is fixed: once).
func NativeRepeat(n int) int { return n }

// NativeWait is replay choreography: natively it waits (at most d) for a signal from a hook
// placed in the code under test, so that the schedule found by the engine is the one that
// runs; under the engine it does nothing (the scheduler explores all interleavings).
func NativeWait(ch <-chan struct{}, d time.Duration) {
	select {
	case <-ch:
	case <-time.After(d):
	}
}
