//go:build verif

package zzverif

import (
	"os"

	"github.com/PowerDNS/lmdb-go/lmdb"
)

var nativeDirs []string
var nativeEnvs []*lmdb.Env

// NewEnv returns an empty LMDB environment: under the engine the executable model
// (MNewEnv), natively a real LMDB in a temporary directory.
func NewEnv() *lmdb.Env {
	dir, err := os.MkdirTemp("", "verif_lmdb_")
	if err != nil {
		panic(err)
	}
	nativeDirs = append(nativeDirs, dir)
	env, err := lmdb.NewEnv()
	if err != nil {
		panic(err)
	}
	if err := env.SetMapSize(64 << 20); err != nil {
		panic(err)
	}
	if err := env.SetMaxDBs(32); err != nil {
		panic(err)
	}
	if err := env.Open(dir, 0, 0o664); err != nil {
		panic(err)
	}
	nativeEnvs = append(nativeEnvs, env)
	return env
}

// Cleanup removes the native environments.
func Cleanup() {
	for _, e := range nativeEnvs {
		e.Close()
	}
	for _, d := range nativeDirs {
		os.RemoveAll(d)
	}
	nativeEnvs, nativeDirs = nil, nil
}

// KV is one entry of a DBI dump.
type KV struct{ K, V []byte }

// Dump reads all entries of a DBI through the public LMDB API (nil if the DBI does not exist).
func Dump(env *lmdb.Env, name string) (out []KV, exists bool) {
	err := env.View(func(txn *lmdb.Txn) error {
		dbi, err := txn.OpenDBI(name, 0)
		if err != nil {
			return err
		}
		exists = true
		c, err := txn.OpenCursor(dbi)
		if err != nil {
			return err
		}
		defer c.Close()
		var op uint = lmdb.First
		for {
			k, v, err := c.Get(nil, nil, op)
			if err != nil {
				return nil
			}
			op = lmdb.Next
			kc := make([]byte, len(k))
			copy(kc, k)
			vc := make([]byte, len(v))
			copy(vc, v)
			out = append(out, KV{kc, vc})
		}
	})
	_ = err
	return out, exists
}

// LastTxnID reads the id of the last committed transaction.
func LastTxnID(env *lmdb.Env) int64 {
	info, err := env.Info()
	if err != nil {
		panic(err)
	}
	return info.LastTxnID
}
