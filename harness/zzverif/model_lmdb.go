//go:build verif

package zzverif

// Executable model of the part of LMDB (through lmdb-go) that the repository
// uses. Under the engine every lmdb.Env/Txn/Cursor method the repository calls is
// redirected to the M* function below of the same name; the model is ordinary Go
// and is executed symbolically like the code under test. Natively it is compiled
// too and compared step by step with real LMDB (model_lmdb_difftest).
//
// Contract implemented (DESIGN.md section 3.1):
//   - one writer; Txn.ID() of a write transaction = last committed id + 1, of a read
//     transaction = last committed id; a write transaction that wrote nothing is not
//     recorded (LastTxnID does not advance, the id is reused);
//   - Update runs fn on a private copy, committed only if fn returns nil;
//   - keys are ordered byte-wise, or as native unsigned integers for MDB_INTEGERKEY;
//     MDB_DUPSORT DBIs hold sorted (key, value) pairs;
//   - a cursor remembers the last entry it returned; Next yields the smallest entry
//     strictly greater than it; Next on a fresh cursor = First.

import (
	"bytes"

	"github.com/PowerDNS/lmdb-go/lmdb"
)

const (
	mIntegerKey = 0x08
	mDupSort    = 0x04
	mCreate     = 0x40000
)

type MDBI struct {
	Name  string
	Flags uint
	Keys  [][]byte
	Vals  [][]byte
}

type MState struct {
	DBIs []*MDBI
}

type MEnv struct {
	Env       *lmdb.Env
	St        *MState
	LastTxnID int64
	Handles   []string // DBI handle h (>= 2) -> name Handles[h-2]
	NUpdates  int
	NViews    int
	NCommits  int
	InTxn     bool
	// fault injection: the FaultAt-th mutating operation (1-based) fails with MapFull
	FaultAt int
	NOps    int
	// writes performed inside read-write transactions that were not rolled back
	Log []MLogEntry
	// hook called after every committed or aborted transaction and Info() (yield points)
	Written int
}

type MLogEntry struct {
	TxnID uintptr
	DBI   string
	Key   []byte
	Val   []byte
	Del   bool
}

type MTxn struct {
	Txn   *lmdb.Txn
	Env   *MEnv
	St    *MState
	Write bool
	ID    uintptr
	Dirty bool
	Done  bool
	Log   []MLogEntry
	// Raw: slices handed out while Txn.RawRead was set. LMDB's contract: such memory is valid
	// only until the next update operation in the transaction or the end of the transaction;
	// the model then overwrites it with a garbage pattern (see invalidate).
	Raw [][]byte
}

// hand returns b as the caller receives it: lmdb-go copies unless Txn.RawRead is set; with
// RawRead the caller gets memory that invalidate() later scribbles over.
func (t *MTxn) hand(b []byte) []byte {
	if !t.Txn.RawRead || len(b) == 0 {
		return b
	}
	c := mCopy(b)
	t.Raw = append(t.Raw, c)
	return c
}

// invalidate: an update operation or the end of the transaction makes every RawRead slice
// handed out so far point at garbage (page reuse, copy-on-write, node moves).
func (t *MTxn) invalidate() {
	for _, b := range t.Raw {
		// a fixed garbage pattern: an arbitrary (symbolic) one makes every later comparison
		// fork; a counterexample is replayed on real LMDB anyway
		copy(b, bytes.Repeat([]byte{0xDB}, len(b)))
	}
	t.Raw = nil
}

type MCursor struct {
	C        *lmdb.Cursor
	Txn      *MTxn
	DBI      string
	Root     bool
	Has      bool // positioned on (LastKey, LastVal)
	AtEnd    bool
	LastKey  []byte
	LastVal  []byte
	Closed   bool
	RootIdx  int
	RootInit bool
	Idx      int // position of (LastKey, LastVal) when it was returned (a hint, re-validated)
}

var (
	mEnvs    []*MEnv
	mTxns    []*MTxn
	mCursors []*MCursor
)

func mErr(op string, errno lmdb.Errno) error { return &lmdb.OpError{Op: op, Errno: errno} }

// MNewEnv creates a fresh, empty model environment.
func MNewEnv() *lmdb.Env {
	e := &MEnv{Env: new(lmdb.Env), St: &MState{}}
	mEnvs = append(mEnvs, e)
	return e.Env
}

// MEnvOf returns the model behind an environment handle.
func MEnvOf(env *lmdb.Env) *MEnv {
	for _, e := range mEnvs {
		if e.Env == env {
			return e
		}
	}
	panic("zzverif: unknown model env")
}

func mTxnOf(txn *lmdb.Txn) *MTxn {
	for i := len(mTxns) - 1; i >= 0; i-- {
		if mTxns[i].Txn == txn {
			return mTxns[i]
		}
	}
	panic("zzverif: unknown model txn")
}

func mCursorOf(c *lmdb.Cursor) *MCursor {
	for i := len(mCursors) - 1; i >= 0; i-- {
		if mCursors[i].C == c {
			return mCursors[i]
		}
	}
	panic("zzverif: unknown model cursor")
}

func (s *MState) clone() *MState {
	n := &MState{DBIs: make([]*MDBI, len(s.DBIs))}
	for i, d := range s.DBIs {
		nd := &MDBI{Name: d.Name, Flags: d.Flags}
		nd.Keys = append(nd.Keys, d.Keys...)
		nd.Vals = append(nd.Vals, d.Vals...)
		n.DBIs[i] = nd
	}
	return n
}

func (s *MState) find(name string) *MDBI {
	for _, d := range s.DBIs {
		if d.Name == name {
			return d
		}
	}
	return nil
}

// ----- Env -----

func MEnvInfo(env *lmdb.Env) (*lmdb.EnvInfo, error) {
	e := MEnvOf(env)
	return &lmdb.EnvInfo{LastTxnID: e.LastTxnID, MapSize: 1 << 30}, nil
}

func MEnvView(env *lmdb.Env, fn lmdb.TxnOp) error {
	e := MEnvOf(env)
	e.NViews++
	t := &MTxn{Txn: new(lmdb.Txn), Env: e, St: e.St, ID: uintptr(e.LastTxnID)}
	mTxns = append(mTxns, t)
	err := fn(t.Txn)
	t.Done = true
	t.invalidate()
	return err
}

func MEnvUpdate(env *lmdb.Env, fn lmdb.TxnOp) error {
	e := MEnvOf(env)
	if e.InTxn {
		panic("zzverif: nested write transaction (would deadlock)")
	}
	e.InTxn = true
	e.NUpdates++
	t := &MTxn{Txn: new(lmdb.Txn), Env: e, St: e.St.clone(), Write: true, ID: uintptr(e.LastTxnID + 1)}
	mTxns = append(mTxns, t)
	err := fn(t.Txn)
	t.Done = true
	t.invalidate()
	e.InTxn = false
	if err != nil {
		return err // aborted: private copy dropped
	}
	if t.Dirty {
		e.St = t.St
		e.LastTxnID = int64(t.ID)
		e.NCommits++
		e.Log = append(e.Log, t.Log...)
	}
	return nil
}

// ----- Txn -----

func MTxnID(txn *lmdb.Txn) uintptr { return mTxnOf(txn).ID }

func (t *MTxn) handleName(dbi lmdb.DBI) (string, bool, bool) {
	if dbi == 1 {
		return "", true, true
	}
	h := int(dbi) - 2
	if h < 0 || h >= len(t.Env.Handles) {
		return "", false, false
	}
	return t.Env.Handles[h], false, true
}

func (t *MTxn) dbiOf(dbi lmdb.DBI) (*MDBI, error) {
	name, root, ok := t.handleName(dbi)
	if !ok || root {
		return nil, mErr("mdb_dbi", lmdb.BadDBI)
	}
	d := t.St.find(name)
	if d == nil {
		return nil, mErr("mdb_dbi", lmdb.BadDBI)
	}
	return d, nil
}

func (t *MTxn) fault() bool {
	t.Env.NOps++
	return t.Env.FaultAt != 0 && t.Env.NOps == t.Env.FaultAt
}

func (e *MEnv) handleFor(name string) lmdb.DBI {
	for i, n := range e.Handles {
		if n == name {
			return lmdb.DBI(i + 2)
		}
	}
	e.Handles = append(e.Handles, name)
	return lmdb.DBI(len(e.Handles) + 1)
}

func MTxnOpenDBI(txn *lmdb.Txn, name string, flags uint) (lmdb.DBI, error) {
	t := mTxnOf(txn)
	d := t.St.find(name)
	if d == nil {
		if flags&mCreate == 0 {
			Debug("opendbi notfound", name)
			return 0, mErr("mdb_dbi_open", lmdb.NotFound)
		}
		if !t.Write {
			return 0, mErr("mdb_dbi_open", lmdb.Errno(13)) // EACCES-like
		}
		if t.fault() {
			return 0, mErr("mdb_dbi_open", lmdb.MapFull)
		}
		d = &MDBI{Name: name, Flags: flags &^ mCreate & 0xffff}
		// keep the DBI list sorted by name (root DBI order)
		pos := len(t.St.DBIs)
		for i, o := range t.St.DBIs {
			if o.Name > name {
				pos = i
				break
			}
		}
		t.St.DBIs = append(t.St.DBIs, nil)
		copy(t.St.DBIs[pos+1:], t.St.DBIs[pos:])
		t.St.DBIs[pos] = d
		t.Dirty = true
	}
	return t.Env.handleFor(name), nil
}

func MTxnCreateDBI(txn *lmdb.Txn, name string) (lmdb.DBI, error) {
	return MTxnOpenDBI(txn, name, mCreate)
}

func MTxnOpenRoot(txn *lmdb.Txn, flags uint) (lmdb.DBI, error) { return 1, nil }

func MTxnFlags(txn *lmdb.Txn, dbi lmdb.DBI) (uint, error) {
	t := mTxnOf(txn)
	if dbi == 1 {
		return 0, nil
	}
	d, err := t.dbiOf(dbi)
	if err != nil {
		return 0, err
	}
	return d.Flags, nil
}

func MTxnStat(txn *lmdb.Txn, dbi lmdb.DBI) (*lmdb.Stat, error) {
	t := mTxnOf(txn)
	if dbi == 1 {
		return &lmdb.Stat{Entries: uint64(len(t.St.DBIs))}, nil
	}
	d, err := t.dbiOf(dbi)
	if err != nil {
		return nil, err
	}
	return &lmdb.Stat{Entries: uint64(len(d.Keys))}, nil
}

func mKeyCmp(d *MDBI, a, b []byte) int {
	if d.Flags&mIntegerKey != 0 {
		x, y := mUint(a), mUint(b)
		if x < y {
			return -1
		}
		if x > y {
			return 1
		}
		return 0
	}
	return bytes.Compare(a, b)
}

func mUint(b []byte) uint64 {
	var v uint64
	for i := len(b) - 1; i >= 0; i-- {
		v = v<<8 | uint64(b[i])
	}
	return v
}

// mEntryCmp orders entries: by key, then (dupsort) by value.
func mEntryCmp(d *MDBI, k1, v1, k2, v2 []byte) int {
	c := mKeyCmp(d, k1, k2)
	if c != 0 || d.Flags&mDupSort == 0 {
		return c
	}
	return bytes.Compare(v1, v2)
}

// lowerBoundKey: first index whose key is >= key.
func (d *MDBI) lowerBoundKey(key []byte) int {
	for i := range d.Keys {
		if mKeyCmp(d, d.Keys[i], key) >= 0 {
			return i
		}
	}
	return len(d.Keys)
}

func mCopy(b []byte) []byte {
	n := make([]byte, len(b))
	copy(n, b)
	return n
}

func MTxnGet(txn *lmdb.Txn, dbi lmdb.DBI, key []byte) ([]byte, error) {
	t := mTxnOf(txn)
	d, err := t.dbiOf(dbi)
	if err != nil {
		return nil, err
	}
	if len(key) == 0 {
		return nil, mErr("mdb_get", lmdb.BadValSize)
	}
	i := d.lowerBoundKey(key)
	if i < len(d.Keys) && mKeyCmp(d, d.Keys[i], key) == 0 {
		return t.hand(d.Vals[i]), nil
	}
	return nil, mErr("mdb_get", lmdb.NotFound)
}

func (t *MTxn) put(op string, d *MDBI, key, val []byte) error {
	if !t.Write {
		return mErr(op, lmdb.Errno(13))
	}
	if len(key) == 0 || len(key) > 511 {
		return mErr(op, lmdb.BadValSize)
	}
	if t.fault() {
		return mErr(op, lmdb.MapFull)
	}
	key, val = mCopy(key), mCopy(val)
	t.invalidate()
	t.Log = append(t.Log, MLogEntry{TxnID: t.ID, DBI: d.Name, Key: key, Val: val})
	// fast path: greater than the last entry
	if n := len(d.Keys); n > 0 && mEntryCmp(d, d.Keys[n-1], d.Vals[n-1], key, val) < 0 {
		d.Keys = append(d.Keys, key)
		d.Vals = append(d.Vals, val)
		t.Dirty = true
		return nil
	}
	i := 0
	for ; i < len(d.Keys); i++ {
		c := mEntryCmp(d, d.Keys[i], d.Vals[i], key, val)
		if c == 0 {
			// same key (or same pair): overwrite in place
			d.Vals[i] = val
			t.Dirty = true
			return nil
		}
		if c > 0 {
			break
		}
	}
	d.Keys = append(d.Keys, nil)
	d.Vals = append(d.Vals, nil)
	copy(d.Keys[i+1:], d.Keys[i:])
	copy(d.Vals[i+1:], d.Vals[i:])
	d.Keys[i], d.Vals[i] = key, val
	t.Dirty = true
	return nil
}

func MTxnPut(txn *lmdb.Txn, dbi lmdb.DBI, key, val []byte, flags uint) error {
	t := mTxnOf(txn)
	d, err := t.dbiOf(dbi)
	if err != nil {
		return err
	}
	return t.put("mdb_put", d, key, val)
}

func (d *MDBI) removeAt(i int) {
	d.Keys = append(d.Keys[:i:i], d.Keys[i+1:]...)
	d.Vals = append(d.Vals[:i:i], d.Vals[i+1:]...)
}

func MTxnDel(txn *lmdb.Txn, dbi lmdb.DBI, key, val []byte) error {
	t := mTxnOf(txn)
	d, err := t.dbiOf(dbi)
	if err != nil {
		return err
	}
	if !t.Write {
		return mErr("mdb_del", lmdb.Errno(13))
	}
	if len(key) == 0 {
		return mErr("mdb_del", lmdb.BadValSize)
	}
	key = mCopy(key)
	if val != nil {
		val = mCopy(val)
	}
	t.invalidate()
	found := false
	for i := 0; i < len(d.Keys); {
		if mKeyCmp(d, d.Keys[i], key) == 0 && (d.Flags&mDupSort == 0 || val == nil || bytes.Equal(d.Vals[i], val)) {
			if !found && t.fault() {
				return mErr("mdb_del", lmdb.MapFull)
			}
			t.Log = append(t.Log, MLogEntry{TxnID: t.ID, DBI: d.Name, Key: d.Keys[i], Val: d.Vals[i], Del: true})
			d.removeAt(i)
			found = true
			continue
		}
		i++
	}
	if !found {
		return mErr("mdb_del", lmdb.NotFound)
	}
	t.Dirty = true
	return nil
}

func MTxnDrop(txn *lmdb.Txn, dbi lmdb.DBI, del bool) error {
	t := mTxnOf(txn)
	d, err := t.dbiOf(dbi)
	if err != nil {
		return err
	}
	if t.fault() {
		return mErr("mdb_drop", lmdb.MapFull)
	}
	t.invalidate()
	if del {
		for i, o := range t.St.DBIs {
			if o == d {
				t.St.DBIs = append(t.St.DBIs[:i:i], t.St.DBIs[i+1:]...)
				break
			}
		}
		t.Dirty = true
		return nil
	}
	if len(d.Keys) > 0 {
		t.Dirty = true
	}
	for i := range d.Keys {
		t.Log = append(t.Log, MLogEntry{TxnID: t.ID, DBI: d.Name, Key: d.Keys[i], Val: d.Vals[i], Del: true})
	}
	d.Keys, d.Vals = nil, nil
	return nil
}

func MTxnOpenCursor(txn *lmdb.Txn, dbi lmdb.DBI) (*lmdb.Cursor, error) {
	t := mTxnOf(txn)
	c := &MCursor{C: new(lmdb.Cursor), Txn: t}
	if dbi == 1 {
		c.Root = true
	} else {
		d, err := t.dbiOf(dbi)
		if err != nil {
			return nil, err
		}
		c.DBI = d.Name
	}
	mCursors = append(mCursors, c)
	return c.C, nil
}

// ----- Cursor -----

func (c *MCursor) ret(d *MDBI, i int) ([]byte, []byte, error) {
	c.Has, c.AtEnd = true, false
	c.Idx = i
	c.LastKey, c.LastVal = d.Keys[i], d.Vals[i]
	return c.Txn.hand(d.Keys[i]), c.Txn.hand(d.Vals[i]), nil
}

func (c *MCursor) end(op string) ([]byte, []byte, error) {
	c.Has, c.AtEnd = false, true
	return nil, nil, mErr(op, lmdb.NotFound)
}

func MCursorGet(cur *lmdb.Cursor, setkey, setval []byte, op uint) ([]byte, []byte, error) {
	c := mCursorOf(cur)
	if c.Root {
		// iteration over the DBI names
		st := c.Txn.St
		switch op {
		case lmdb.First:
			c.RootIdx = 0
		case lmdb.Next:
			if !c.RootInit {
				c.RootIdx = 0
			} else {
				c.RootIdx++
			}
		default:
			panic("zzverif: unsupported root cursor op")
		}
		c.RootInit = true
		if c.RootIdx >= len(st.DBIs) {
			return nil, nil, mErr("mdb_cursor_get", lmdb.NotFound)
		}
		return []byte(st.DBIs[c.RootIdx].Name), []byte{0}, nil
	}
	d := c.Txn.St.find(c.DBI)
	if d == nil {
		return nil, nil, mErr("mdb_cursor_get", lmdb.BadDBI)
	}
	switch op {
	case lmdb.First:
		if len(d.Keys) == 0 {
			return c.end("mdb_cursor_get")
		}
		return c.ret(d, 0)
	case lmdb.Next:
		if c.AtEnd {
			return nil, nil, mErr("mdb_cursor_get", lmdb.NotFound)
		}
		if !c.Has {
			if len(d.Keys) == 0 {
				return c.end("mdb_cursor_get")
			}
			return c.ret(d, 0)
		}
		// fast path: the entry returned last is still where it was
		if c.Idx < len(d.Keys) && len(c.LastKey) > 0 && len(d.Keys[c.Idx]) > 0 && &d.Keys[c.Idx][0] == &c.LastKey[0] &&
			(d.Flags&mDupSort == 0 || (len(c.LastVal) > 0 && len(d.Vals[c.Idx]) > 0 && &d.Vals[c.Idx][0] == &c.LastVal[0])) {
			if c.Idx+1 < len(d.Keys) {
				return c.ret(d, c.Idx+1)
			}
			return c.end("mdb_cursor_get")
		}
		for i := range d.Keys {
			if mEntryCmp(d, d.Keys[i], d.Vals[i], c.LastKey, c.LastVal) > 0 {
				return c.ret(d, i)
			}
		}
		return c.end("mdb_cursor_get")
	case lmdb.SetRange:
		if len(setkey) == 0 {
			return nil, nil, mErr("mdb_cursor_get", lmdb.BadValSize)
		}
		i := d.lowerBoundKey(setkey)
		if i >= len(d.Keys) {
			return c.end("mdb_cursor_get")
		}
		return c.ret(d, i)
	case lmdb.Set, lmdb.SetKey:
		i := d.lowerBoundKey(setkey)
		if i >= len(d.Keys) || mKeyCmp(d, d.Keys[i], setkey) != 0 {
			return c.end("mdb_cursor_get")
		}
		return c.ret(d, i)
	case lmdb.GetCurrent:
		if !c.Has {
			return nil, nil, mErr("mdb_cursor_get", lmdb.Errno(22))
		}
		return c.Txn.hand(c.LastKey), c.Txn.hand(c.LastVal), nil
	}
	panic("zzverif: unsupported cursor op")
}

func MCursorPut(cur *lmdb.Cursor, key, val []byte, flags uint) error {
	c := mCursorOf(cur)
	t := c.Txn
	d := t.St.find(c.DBI)
	if d == nil {
		return mErr("mdb_cursor_put", lmdb.BadDBI)
	}
	key, val = mCopy(key), mCopy(val) // the arguments may be RawRead memory that this very update invalidates
	if flags&lmdb.Append != 0 {
		if n := len(d.Keys); n > 0 && len(key) > 0 && len(key) <= 511 && mKeyCmp(d, d.Keys[n-1], key) >= 0 {
			return mErr("mdb_cursor_put", lmdb.KeyExist)
		}
	}
	if err := t.put("mdb_cursor_put", d, key, val); err != nil {
		return err
	}
	c.Has, c.AtEnd = true, false
	c.LastKey, c.LastVal = mCopy(key), mCopy(val)
	return nil
}

func MCursorDel(cur *lmdb.Cursor, flags uint) error {
	c := mCursorOf(cur)
	t := c.Txn
	d := t.St.find(c.DBI)
	if d == nil || !c.Has {
		return mErr("mdb_cursor_del", lmdb.Errno(22))
	}
	if !t.Write {
		return mErr("mdb_cursor_del", lmdb.Errno(13))
	}
	t.invalidate()
	for i := range d.Keys {
		if mEntryCmp(d, d.Keys[i], d.Vals[i], c.LastKey, c.LastVal) == 0 {
			if t.fault() {
				return mErr("mdb_cursor_del", lmdb.MapFull)
			}
			t.Log = append(t.Log, MLogEntry{TxnID: t.ID, DBI: d.Name, Key: d.Keys[i], Val: d.Vals[i], Del: true})
			d.removeAt(i)
			t.Dirty = true
			return nil
		}
	}
	return mErr("mdb_cursor_del", lmdb.NotFound)
}

func MCursorClose(cur *lmdb.Cursor) { mCursorOf(cur).Closed = true }
