//go:build verif

// Package zzverif is the harness runtime API. Under the symbolic engine
// (gosym) the functions below are intercepted by name; the bodies here are the
// native implementations used for replaying counterexamples against the real
// build.
package zzverif

import (
	"encoding/json"
	"fmt"
	"os"
)

// Replay state (native only).
var (
	replayVals   map[string]uint64
	replayCount  = map[string]int{}
	Failures     []string
	Diverged     bool
	ReachedNames = map[string]bool{}
)

type replayFile struct {
	Label   string            `json:"label"`
	Harness string            `json:"harness"`
	Values  map[string]uint64 `json:"values"`
}

// LoadReplay reads a counterexample file (native only).
func LoadReplay(path string) (label, harness string, err error) {
	raw, err := os.ReadFile(path)
	if err != nil {
		return "", "", err
	}
	var rf replayFile
	if err := json.Unmarshal(raw, &rf); err != nil {
		return "", "", err
	}
	replayVals = rf.Values
	replayCount = map[string]int{}
	Failures = nil
	Diverged = false
	return rf.Label, rf.Harness, nil
}

// ResetReplay rewinds the replay for another repetition with the same values.
func ResetReplay() {
	replayCount = map[string]int{}
	Failures = nil
	Diverged = false
}

// SetValues installs concrete values directly (native self-tests).
func SetValues(m map[string]uint64) {
	replayVals = m
	replayCount = map[string]int{}
	Failures = nil
	Diverged = false
}

func uniq(name string) string {
	n := replayCount[name]
	replayCount[name] = n + 1
	if n == 0 {
		return name
	}
	return fmt.Sprintf("%s#%d", name, n)
}

func val(name string) uint64 { return replayVals[uniq(name)] }

func NondetU8(name string) uint8   { return uint8(val(name)) }
func NondetU16(name string) uint16 { return uint16(val(name)) }
func NondetU32(name string) uint32 { return uint32(val(name)) }
func NondetU64(name string) uint64 { return val(name) }
func NondetI64(name string) int64  { return int64(val(name)) }
func NondetInt(name string) int    { return int(val(name)) }
func NondetBool(name string) bool  { return val(name) != 0 }

// NondetBytes returns a fresh slice of n arbitrary bytes.
func NondetBytes(name string, n int) []byte {
	name = uniq(name)
	b := make([]byte, n)
	for i := range b {
		b[i] = byte(replayVals[fmt.Sprintf("%s[%d]", name, i)])
	}
	return b
}

// Choice returns an arbitrary value in 0..n-1 (a case split under the engine).
func Choice(name string, n int) int { return int(val(name)) }

// Param is a bound of the harness that a tier may raise (props.json "params"); def applies
// when the job does not set it. Natively the counterexample's value is used.
func Param(name string, def int) int {
	if v, ok := replayVals["param:"+name]; ok {
		return int(v)
	}
	return def
}

// Shard is a Choice that parallel workers partition among themselves.
func Shard(n int) int { return int(val("shard")) }

// Assume restricts the inputs; natively a false assumption means the replay diverged.
func Assume(c bool) {
	if !c {
		Diverged = true
		panic(divergence{})
	}
}

type divergence struct{}

// IsDivergence tells whether a recovered panic value came from Assume.
func IsDivergence(r interface{}) bool { _, ok := r.(divergence); return ok }

// Assert states the property.
func Assert(c bool, label string) {
	if !c {
		Failures = append(Failures, label)
	}
}

// Reach is a reachability witness.
func Reach(label string) { ReachedNames[label] = true }

// Note records a remark in the evidence samples.
func Note(s string) {}

// Symbolic reports whether the harness runs under the engine.
func Symbolic() bool { return false }

// SetClock sets the model clock (engine only; natively the real clock is used).
func SetClock(ns int64) {}

// ClockAuto makes every time.Now() return a fresh non-decreasing instant (engine only).
func ClockAuto(on bool) {}

// IsConcrete reports whether v is a constant under the engine.
func IsConcrete(v uint64) bool { return true }

// StubError is what fmt.Errorf returns under the engine.
type StubError struct {
	Msg     string
	Wrapped error
}

func (s *StubError) Error() string { return s.Msg }
func (s *StubError) Unwrap() error { return s.Wrapped }

// Boolean connectives that do not fork under the engine (arguments are
// evaluated eagerly, the engine builds one term).
func And(a, b bool) bool     { return a && b }
func Or(a, b bool) bool      { return a || b }
func Not(a bool) bool        { return !a }
func Implies(a, b bool) bool { return !a || b }

// IteU64 is a non-forking conditional.
func IteU64(c bool, a, b uint64) uint64 {
	if c {
		return a
	}
	return b
}

// RetentionDays returns the float32 retention_days setting. Under the engine the float is
// opaque and (config.Sweeper).RetentionDuration() is replaced by the symbolic non-negative
// int64 "retention" (the float32 product is not encoded); natively the setting is chosen so
// that RetentionDuration() is as close to the counterexample's "retention" as float32 allows.
func RetentionDays() float32 {
	return float32(float64(int64(val("retention"))) / 86400e9)
}

// Debug prints a value when tracing (engine) or to stdout (native).
func Debug(tag string, v interface{}) { println("DEBUG", tag, v) }

// ClockRead returns the current model clock without advancing it (natively: real time).
func ClockRead() int64 { return timeNowNano() }

// ClockStep makes the model clock strictly advance (natively: sleeps a microsecond).
func ClockStep() { sleepMicro() }

// ClockStepMax bounds how far the model clock may advance between two consecutive readings
// in ClockAuto mode (engine only).
func ClockStepMax(ns int64) {}
