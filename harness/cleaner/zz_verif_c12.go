//go:build verif

package cleaner

import (
	"context"
	"errors"
	"time"

	"github.com/PowerDNS/lightningstream/config"
	zz "github.com/PowerDNS/lightningstream/internal/zzverif"
	"github.com/PowerDNS/lightningstream/snapshot"
	"github.com/PowerDNS/simpleblob"
	"github.com/sirupsen/logrus"
)

type vBucket struct {
	names      []string
	deleted    []string // names for which Delete was called (successful or not)
	removed    []string // successfully deleted
	lists      int
	stores     int
	failList   bool
	failDelete int // number of upcoming Delete calls that fail
}

var errInjected = errors.New("injected storage failure")

func (b *vBucket) List(ctx context.Context, prefix string) (simpleblob.BlobList, error) {
	b.lists++
	if b.failList {
		return nil, errInjected
	}
	var bl simpleblob.BlobList
	for _, n := range b.names {
		if len(n) >= len(prefix) && n[:len(prefix)] == prefix {
			bl = append(bl, simpleblob.Blob{Name: n, Size: 1})
		}
	}
	return bl, nil
}
func (b *vBucket) Load(ctx context.Context, name string) ([]byte, error) { return nil, errInjected }
func (b *vBucket) Store(ctx context.Context, name string, data []byte) error {
	b.stores++
	return nil
}
func (b *vBucket) Delete(ctx context.Context, name string) error {
	b.deleted = append(b.deleted, name)
	if b.failDelete > 0 {
		b.failDelete--
		return errInjected
	}
	b.removed = append(b.removed, name)
	for i, n := range b.names {
		if n == name {
			b.names = append(b.names[:i:i], b.names[i+1:]...)
			break
		}
	}
	return nil
}

type vFile struct {
	name      string
	inst      string
	ts        int64
	snap      bool // a well-formed snapshot of this database
	firstSeen int64
	seen      bool
}

func vHasName(l []string, n string) bool {
	for _, x := range l {
		if x == n {
			return true
		}
	}
	return false
}

// VerifC12: two consecutive cleaning runs over a listing of up to 4 files with arbitrary
// snapshot times, instants, intervals, a merge-commit notification and delete failures.
func VerifC12() { verifC12(false) }

// VerifC12SameSecond: the same, with snapshot times base+offset where the bases are concrete
// seconds and two snapshots of the listing fall into the same wall-clock second (names carry
// nanoseconds: sub-second publication intervals are legal).
func VerifC12SameSecond() { verifC12(true) }

func verifC12(sameSecond bool) {
	lg := logrus.New()
	lg.SetLevel(logrus.PanicLevel)
	b := &vBucket{}
	mustKeep := time.Duration(zz.NondetI64("must_keep"))
	stale := time.Duration(zz.NondetI64("stale_interval"))
	zz.Assume(zz.And(mustKeep >= 0, zz.And(stale >= 0, zz.And(mustKeep < 1<<60, stale < 1<<60))))
	conf := config.Cleanup{Enabled: true, Interval: time.Minute, MustKeepInterval: mustKeep, RemoveOldInstancesInterval: stale}
	w := New("db", b, conf, lg)

	insts := []string{"a", "b"}
	var files []*vFile
	mk := func(i int, inst string) *vFile {
		ts := zz.NondetI64("ts" + string(rune('0'+i)))
		zz.Assume(zz.And(ts > 0, ts < 1<<61))
		if sameSecond {
			bases := []int64{1600000000, 1600000100, 1600000100, 1600000200}
			off := ts
			zz.Assume(off < 1000000000)
			ts = bases[i]*1000000000 + off
		}
		for _, f := range files {
			if f.snap && f.inst == inst {
				zz.Assume(f.ts != ts) // snapshot times of one instance are pairwise distinct (C06)
			}
		}
		n := snapshot.NameInfo{Extension: snapshot.DefaultExtension, SyncerName: "db", InstanceID: inst, GenerationID: "GX", Timestamp: time.Unix(0, ts)}.BuildName()
		return &vFile{name: n, inst: inst, ts: ts, snap: true}
	}
	sh := zz.Shard(8)
	files = append(files, mk(0, insts[sh%2]))
	files = append(files, mk(1, insts[sh/2%2]))
	files = append(files, mk(2, insts[sh/4]))
	// the three files are interchangeable (every instance assignment is explored), so their
	// snapshot times are taken in increasing order without loss of generality
	zz.Assume(zz.And(files[0].ts < files[1].ts, files[1].ts < files[2].ts))
	files = append(files, &vFile{name: "db__garbage.txt"})
	files = append(files, &vFile{name: "db__a__not-a-timestamp__GX.pb.gz"})
	for _, f := range files {
		b.names = append(b.names, f.name)
	}
	// a snapshot of another database is never even listed (prefix), but keep it in the bucket
	b.names = append(b.names, "db2__a__20230101-000000-000000000__GX.pb.gz")
	// ... and so are those of a database whose name extends ours ("db_archive"), old and superseded
	b.names = append(b.names, "db_archive__a__19990101-000000-000000000__GX.pb.gz", "db_archive__a__19990102-000000-000000000__GX.pb.gz")

	committed := map[string]int64{}
	failListRun := zz.Choice("faillist", 3) - 1 // -1: never
	var now [2]int64
	now[0] = zz.NondetI64("now0")
	now[1] = zz.NondetI64("now1")
	zz.Assume(zz.And(now[0] > 0, zz.And(now[0] <= now[1], now[1] < 1<<61)))
	for run := 0; run < 2; run++ {
		if run == 1 {
			// between the runs: a merge-commit notification and possibly a new snapshot
			if c := zz.Choice("commit", 3); c > 0 {
				ct := zz.NondetI64("committed")
				zz.Assume(zz.And(ct >= 0, ct < 1<<61))
				m := map[string]time.Time{insts[c-1]: time.Unix(0, ct)}
				w.SetCommitted(m)
				committed[insts[c-1]] = ct
				// the syncer keeps recording later merges in its own map; those are not
				// committed (re-published) yet and must not count for the cleaner
				m["a"] = time.Unix(0, 1<<61)
				m["b"] = time.Unix(0, 1<<61)
			}
			if zz.Choice("newfile", 2) == 1 {
				f := mk(3, "a")
				files = append(files, f)
				b.names = append(b.names, f.name)
			}
		}
		b.failList = failListRun == run
		b.failDelete = 0
		if run == 1 {
			b.failDelete = zz.Choice("faildelete", 2)
		}
		listed := append([]string{}, b.names...)
		delBefore := len(b.deleted)
		remBefore := len(b.removed)
		err := w.RunOnce(context.Background(), time.Unix(0, now[run]))
		if b.failList {
			zz.Assert(err != nil, "C12/list-error-reported")
			zz.Assert(len(b.deleted) == delBefore, "C12/list-error-deletes-nothing")
			continue
		}
		zz.Assert(err == nil, "C12/run-no-error")
		for _, dn := range b.deleted[delBefore:] {
			var df *vFile
			for _, f := range files {
				if f.name == dn {
					df = f
				}
			}
			zz.Assert(df != nil && df.snap, "C12/delete/only-well-formed-snapshots-of-this-database")
			// C15's last clause seen from its main consumer: a name of another database
			// (also one whose name merely starts with ours) is never taken for one of ours
			zz.Assert(df != nil, "C15/cleaner/names-of-other-databases-never-taken-for-ours")
			if df == nil || !df.snap {
				continue
			}
			zz.Assert(df.seen, "C12/delete/never-on-first-sight")
			if df.seen {
				zz.Assert(now[run]-df.firstSeen > int64(mustKeep), "C12/delete/kept-for-the-keep-interval")
			}
			// newest listed snapshot of its instance?
			newest := true
			keptNewer := false
			for _, f := range files {
				if f != df && f.snap && f.inst == df.inst && vHasName(listed, f.name) && f.ts > df.ts {
					newest = false
					if !vHasName(b.deleted[delBefore:], f.name) {
						keptNewer = true
					}
				}
			}
			if newest {
				zz.Assert(now[run]-df.ts > int64(stale), "C12/delete/newest-only-if-instance-silent-long-enough")
				ct, ok := committed[df.inst]
				zz.Assert(ok && df.ts <= ct, "C12/delete/newest-only-if-merged-and-republished")
				// C05's glue: the only legal way the cleaner removes an instance's newest snapshot
				zz.Assert(ok && df.ts <= ct && now[run]-df.ts > int64(stale), "C05/cleaner/newest-snapshot-removed-only-when-merged-republished-and-stale")
			}
			// a superseded snapshot may go: a newer one of its instance is listed, and whether
			// that one may go too is judged by the rule for the newest snapshot above
			_ = keptNewer
		}
		// bounded liveness: a superseded snapshot seen in an earlier run more than must_keep ago,
		// whose newer sibling was seen then too, is removed now (when Delete succeeds)
		for _, f := range files {
			if !f.snap || !f.seen || !vHasName(listed, f.name) || now[run]-f.firstSeen <= int64(mustKeep) {
				continue
			}
			for _, p := range files {
				if p != f && p.snap && p.inst == f.inst && p.seen && vHasName(listed, p.name) && p.ts > f.ts &&
					now[run]-p.firstSeen > int64(mustKeep) && b.failDelete == 0 && len(b.deleted[delBefore:]) == len(b.removed[remBefore:]) {
					zz.Assert(vHasName(b.removed[remBefore:], f.name), "C12/liveness/superseded-snapshot-removed")
				}
			}
		}
		for _, f := range files {
			if vHasName(listed, f.name) && !f.seen {
				f.seen, f.firstSeen = true, now[run]
			}
		}
	}
	zz.Assert(b.stores == 0, "C12/cleaner-never-stores")
	zz.Reach("C12/done")
}

// VerifC12Disabled: a disabled cleaner (the receive-only wiring) touches nothing.
func VerifC12Disabled() {
	lg := logrus.New()
	lg.SetLevel(logrus.PanicLevel)
	b := &vBucket{names: []string{"db__a__20230101-000000-000000000__GX.pb.gz"}}
	w := New("db", b, config.Cleanup{Enabled: false, MustKeepInterval: 0, RemoveOldInstancesInterval: 0}, lg)
	for i := 0; i < 2; i++ {
		err := w.RunOnce(context.Background(), time.Unix(0, zz.NondetI64("now")))
		zz.Assert(err == nil, "C12/disabled/no-error")
	}
	zz.Assert(b.lists == 0 && len(b.deleted) == 0 && b.stores == 0, "C12/disabled/no-list-store-delete")
	zz.Reach("C12/disabled/done")
}

// VerifC17CleanerState: the commit notification crosses goroutines (sync loop -> cleaner): the
// cleaner keeps its own copy, so later unlocked writes of the sync loop to its map are not
// visible through the cleaner's locked accessors (no state shared outside the lock).
func VerifC17CleanerState() {
	lg := logrus.New()
	lg.SetLevel(logrus.PanicLevel)
	w := New("db", &vBucket{}, config.Cleanup{Enabled: true}, lg)
	t1 := time.Unix(0, zz.NondetI64("t1"))
	t2 := time.Unix(0, zz.NondetI64("t2"))
	zz.Assume(!t1.Equal(t2) && !t2.IsZero())
	m := map[string]time.Time{"a": t1}
	w.SetCommitted(m)
	m["a"] = t2 // LoadOnce records a later merge in the sync loop's private map
	m["b"] = t2
	zz.Assert(w.GetCommitted("a").Equal(t1), "C17/cleaner/committed-state-not-shared-with-the-sync-loop")
	zz.Assert(w.GetCommitted("b").IsZero(), "C17/cleaner/committed-state-not-shared-with-the-sync-loop")
	zz.Reach("C17/cleaner/done")
}
