//go:build verif

package header

import (
	zz "github.com/PowerDNS/lightningstream/internal/zzverif"
)

// VerifC14PutBasic: PutBasic writes a well-formed version-0 header for all inputs.
func VerifC14PutBasic() {
	ts := Timestamp(zz.NondetU64("ts"))
	txn := TxnID(zz.NondetU64("txn"))
	fl := Flags(zz.NondetU8("flags"))
	b := zz.NondetBytes("buf", MinHeaderSize) // arbitrary previous content
	PutBasic(b, ts, txn, fl)
	// independent reader of the documented layout
	var rts, rtxn uint64
	for i := 0; i < 8; i++ {
		rts = rts<<8 | uint64(b[i])
		rtxn = rtxn<<8 | uint64(b[8+i])
	}
	zz.Assert(rts == uint64(ts), "C14/putbasic/ts")
	zz.Assert(rtxn == uint64(txn), "C14/putbasic/txnid")
	zz.Assert(b[16] == 0, "C14/putbasic/version")
	zz.Assert(b[17] == uint8(fl), "C14/putbasic/flags")
	zz.Assert(b[18] == 0 && b[19] == 0 && b[20] == 0 && b[21] == 0, "C14/putbasic/reserved")
	zz.Assert(b[22] == 0 && b[23] == 0, "C14/putbasic/numextra")
	zz.Reach("C14/putbasic/end")
}
