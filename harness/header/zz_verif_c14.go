//go:build verif

package header

import (
	"bytes"

	zz "github.com/PowerDNS/lightningstream/internal/zzverif"
)

// VerifC14PutBasic: PutBasic writes a well-formed version-0 header for all inputs.
func VerifC14PutBasic() {
	ts := Timestamp(zz.NondetU64("ts"))
	txn := TxnID(zz.NondetU64("txn"))
	fl := Flags(zz.NondetU8("flags"))
	b := zz.NondetBytes("buf", MinHeaderSize) // arbitrary previous content
	PutBasic(b, ts, txn, fl)
	// independent reader of the documented layout
	var rts, rtxn uint64
	for i := 0; i < 8; i++ {
		rts = rts<<8 | uint64(b[i])
		rtxn = rtxn<<8 | uint64(b[8+i])
	}
	zz.Assert(rts == uint64(ts), "C14/putbasic/ts")
	zz.Assert(rtxn == uint64(txn), "C14/putbasic/txnid")
	zz.Assert(b[16] == 0, "C14/putbasic/version")
	zz.Assert(b[17] == uint8(fl), "C14/putbasic/flags")
	zz.Assert(zz.And(zz.And(b[18] == 0, b[19] == 0), zz.And(b[20] == 0, b[21] == 0)), "C14/putbasic/reserved")
	zz.Assert(zz.And(b[22] == 0, b[23] == 0), "C14/putbasic/numextra")
	zz.Reach("C14/putbasic/end")
}

func verifRef(b []byte) (ok bool, tooShort bool, ts, txn uint64, flags uint8, n int) {
	if len(b) < 24 {
		return false, true, 0, 0, 0, 0
	}
	for i := 0; i < 8; i++ {
		ts = ts<<8 | uint64(b[i])
		txn = txn<<8 | uint64(b[8+i])
	}
	return true, false, ts, txn, b[17], int(b[22])<<8 | int(b[23])
}

// verifC14Read: arbitrary stored bytes of length n fed to Parse, Skip and ParseTimestamp.
func verifC14Read(n int) {
	b := zz.NondetBytes("val", n)
	h, val, err := Parse(b)
	sval, serr := Skip(b)
	pts, perr := ParseTimestamp(b)
	zz.Assert((perr == nil) == (n >= 8), "C14/parsets/error-iff-too-short")
	if n < 24 {
		zz.Assert(err == ErrTooShort, "C14/parse/too-short-rejected")
		zz.Assert(serr == ErrTooShort, "C14/skip/too-short-rejected")
		zz.Assert(val == nil && sval == nil, "C14/parse/no-value-on-error")
		zz.Reach("C14/read/short")
		return
	}
	_, _, ts, txn, fl, ne := verifRef(b)
	zz.Assert(uint64(pts) == ts, "C14/parsets/value")
	if b[16] != 0 {
		zz.Assert(err == ErrVersion, "C14/parse/other-version-rejected")
		zz.Assert(serr == ErrVersion, "C14/skip/other-version-rejected")
		zz.Reach("C14/read/version")
		return
	}
	if n < 24+8*ne {
		zz.Assert(err == ErrTooShort, "C14/parse/missing-extension-bytes-rejected")
		zz.Assert(serr == ErrTooShort, "C14/skip/missing-extension-bytes-rejected")
		zz.Reach("C14/read/short-extra")
		return
	}
	zz.Assert(err == nil, "C14/parse/accepts-well-formed")
	zz.Assert(serr == nil, "C14/skip/accepts-well-formed")
	if err != nil || serr != nil {
		return
	}
	zz.Assert(uint64(h.Timestamp) == ts, "C14/parse/ts")
	zz.Assert(uint64(h.TxnID) == txn, "C14/parse/txnid")
	zz.Assert(uint8(h.Flags) == fl, "C14/parse/flags")
	zz.Assert(h.NumExtra == ne, "C14/parse/numextra")
	zz.Assert(bytes.Equal(val, b[24+8*ne:]), "C14/parse/value-after-all-extension-blocks")
	zz.Assert(bytes.Equal(sval, b[24+8*ne:]), "C14/skip/value-after-all-extension-blocks")
	zz.Assert(len(h.Extra) == 8*ne, "C14/parse/extra-len")
	zz.Reach("C14/read/ok")
}

// VerifC14Read: all lengths 0..42 (header + up to 2 extension blocks + 2 value bytes).
func VerifC14Read() { verifC14Read(zz.Shard(43)) }

// VerifC14ReadBig: lengths around 24+8k for k<=4 plus one value byte (thorough).
func VerifC14ReadBig() {
	ls := []int{43, 47, 48, 49, 55, 56, 57, 58}
	verifC14Read(ls[zz.Shard(len(ls))])
}

// VerifC14Bytes: Header.Bytes()/MarshalBinary writes a header that the reference reader
// understands, for all field values and extension payloads up to 2 blocks.
func VerifC14Bytes() {
	ne := zz.Choice("numextra", 3)
	el := zz.Choice("extralen", 18)
	h := Header{
		Timestamp: Timestamp(zz.NondetU64("ts")),
		TxnID:     TxnID(zz.NondetU64("txn")),
		Flags:     Flags(zz.NondetU8("flags")),
		NumExtra:  ne,
		Extra:     zz.NondetBytes("extra", el),
	}
	b := h.Bytes()
	_, short, ts, txn, fl, n := verifRef(b)
	zz.Assert(!short, "C14/bytes/min-size")
	if short {
		return
	}
	want := ne
	if el > 8*ne {
		want = (el + 7) / 8
	}
	zz.Assert(ts == uint64(h.Timestamp) && txn == uint64(h.TxnID), "C14/bytes/ts-txnid")
	zz.Assert(fl == uint8(h.Flags) && b[16] == 0, "C14/bytes/flags-version")
	zz.Assert(zz.And(zz.And(b[18] == 0, b[19] == 0), zz.And(b[20] == 0, b[21] == 0)), "C14/bytes/reserved")
	zz.Assert(n == want, "C14/bytes/numextra-matches")
	zz.Assert(len(b) == 24+8*want, "C14/bytes/length")
	if len(b) == 24+8*want {
		zz.Assert(bytes.Equal(b[24:24+el], h.Extra), "C14/bytes/extra-content")
		for i := 24 + el; i < len(b); i++ {
			zz.Assert(b[i] == 0, "C14/bytes/extra-padding-zero")
		}
	}
	// round trip through the real parser
	h2, rest, err := Parse(b)
	zz.Assert(err == nil && len(rest) == 0, "C14/bytes/parse-roundtrip")
	zz.Assert(h2.Timestamp == h.Timestamp && h2.TxnID == h.TxnID && h2.Flags == h.Flags, "C14/bytes/parse-roundtrip-fields")
	zz.Reach("C14/bytes/end")
}
