//go:build verif

package strategy

import (
	"bytes"
	"errors"
	"io"

	zz "github.com/PowerDNS/lightningstream/internal/zzverif"
	"github.com/PowerDNS/lmdb-go/lmdb"
)

// vIter is a harness iterator whose merge/clean decisions are arbitrary:
// 0 = keep what is stored, 1 = replace with val, 2 = delete.
type vIter struct {
	keys   [][]byte
	kind   []int
	vals   [][]byte
	ckind  int // clean decision (same for all cleaned keys)
	cval   []byte
	cur    int
	cleans int
}

func (it *vIter) Next() ([]byte, error) {
	it.cur++
	if it.cur > len(it.keys) {
		return nil, io.EOF
	}
	return it.keys[it.cur-1], nil
}

func vDecide(kind int, val, old []byte) []byte {
	switch kind {
	case 0:
		if len(old) == 0 {
			return nil
		}
		return old
	case 1:
		return val
	}
	return nil
}

func (it *vIter) Merge(old []byte) ([]byte, error) {
	return vDecide(it.kind[it.cur-1], it.vals[it.cur-1], old), nil
}

func (it *vIter) Clean(old []byte) ([]byte, error) {
	it.cleans++
	return vDecide(it.ckind, it.cval, old), nil
}

// vKey returns an arbitrary key: byte-wise DBIs get 1..2 arbitrary bytes,
// integer-key DBIs 4 (or 8) arbitrary bytes.
func vKey(name string, integer bool, width int) []byte {
	if integer {
		return zz.NondetBytes(name, width)
	}
	if width <= 1 {
		return zz.NondetBytes(name, 1)
	}
	return zz.NondetBytes(name, 1+zz.Choice(name+".len", width))
}

func vLess(integer bool, a, b []byte) bool {
	if integer {
		var x, y uint64
		for i := len(a) - 1; i >= 0; i-- {
			x = x<<8 | uint64(a[i])
			y = y<<8 | uint64(b[i])
		}
		return x < y
	}
	return bytes.Compare(a, b) < 0
}

// vRef is the map-based reference of a DBI.
type vRef struct{ k, v [][]byte }

func (r *vRef) get(k []byte) []byte {
	for i := range r.k {
		if bytes.Equal(r.k[i], k) {
			return r.v[i]
		}
	}
	return nil
}

func (r *vRef) set(k, v []byte) {
	for i := range r.k {
		if bytes.Equal(r.k[i], k) {
			if len(v) == 0 {
				r.k = append(r.k[:i:i], r.k[i+1:]...)
				r.v = append(r.v[:i:i], r.v[i+1:]...)
			} else {
				r.v[i] = v
			}
			return
		}
	}
	if len(v) > 0 {
		r.k = append(r.k, k)
		r.v = append(r.v, v)
	}
}

// put adds a stored entry as it is (an empty value is a present key with an empty value).
func (r *vRef) put(k, v []byte) {
	if v == nil {
		v = []byte{}
	}
	r.k = append(r.k, k)
	r.v = append(r.v, v)
}

func vHas(keys [][]byte, k []byte) bool {
	for _, x := range keys {
		if bytes.Equal(x, k) {
			return true
		}
	}
	return false
}

func vName(p string, i int) string { return p + string(rune('0'+i)) }

// verifC19 runs one strategy over a stored DBI of nStored entries with nIn input keys.
// strat: 0 = Update, 1 = IterUpdate, 2 = EmptyPut.
func verifC19(strat int, integer bool, width, nStored, nIn int) {
	// the decision kinds are the sharding key
	sh := zz.Shard(27)
	kinds := []int{sh % 3, sh / 3 % 3}
	ckind := sh / 9
	env := zz.NewEnv()
	var flags uint
	if integer {
		flags = LMDBIntegerKeyFlag
	}
	ref := &vRef{}
	var storedKeys [][]byte
	err := env.Update(func(txn *lmdb.Txn) error {
		dbi, err := txn.OpenDBI("d", lmdb.Create|flags)
		if err != nil {
			return err
		}
		for i := 0; i < nStored; i++ {
			k := vKey(vName("s", i), integer, width)
			// stored values of length 0 or 1: a key stored with an empty value is a present key
			v := zz.NondetBytes(vName("sv", i), zz.Choice(vName("sv.len", i), 2))
			if vHas(storedKeys, k) {
				zz.Assume(false) // distinct stored keys
			}
			if err := txn.Put(dbi, k, v, 0); err != nil {
				return err
			}
			storedKeys = append(storedKeys, k)
			ref.put(k, v)
		}
		return nil
	})
	if err != nil {
		zz.Assert(false, "harness/setup")
		return
	}
	it := &vIter{ckind: ckind, cval: zz.NondetBytes("clean.val", 1)}
	sorted := true
	for i := 0; i < nIn; i++ {
		k := vKey(vName("i", i), integer, width)
		if i > 0 {
			sorted = sorted && vLess(integer, it.keys[i-1], k)
		}
		if strat == 2 && vHas(it.keys, k) {
			zz.Assume(false) // rebuild-from-empty input has distinct keys (a DBI dump)
		}
		it.keys = append(it.keys, k)
		it.kind = append(it.kind, kinds[i%2])
		it.vals = append(it.vals, zz.NondetBytes(vName("iv", i), 1))
	}
	// reference result
	want := &vRef{}
	switch strat {
	case 0: // Update: sequential point updates
		want.k = append(want.k, ref.k...)
		want.v = append(want.v, ref.v...)
		for i, k := range it.keys {
			want.set(k, vDecide(it.kind[i], it.vals[i], want.get(k)))
		}
	case 1: // IterUpdate: merge for input keys, clean for the other stored keys
		for j, k := range ref.k {
			if !vHas(it.keys, k) {
				want.set(k, vDecide(it.ckind, it.cval, ref.v[j]))
			}
		}
		for i, k := range it.keys {
			want.set(k, vDecide(it.kind[i], it.vals[i], ref.get(k)))
		}
	case 2: // EmptyPut: rebuilt from the input alone
		for i, k := range it.keys {
			want.set(k, vDecide(it.kind[i], it.vals[i], want.get(k)))
		}
	}
	var serr error
	err = env.Update(func(txn *lmdb.Txn) error {
		dbi, err := txn.OpenDBI("d", 0)
		if err != nil {
			return err
		}
		switch strat {
		case 0:
			serr = Update(txn, dbi, it)
		case 1:
			serr = IterUpdate(txn, dbi, it)
		default:
			serr = EmptyPut(txn, dbi, it)
		}
		return serr
	})
	if strat == 1 && !sorted {
		zz.Assert(serr != nil, "C19/unsorted-input-rejected")
		zz.Assert(errors.Is(serr, ErrNotSorted), "C19/unsorted-input-error-kind")
		zz.Reach("C19/unsorted")
		return
	}
	if strat == 1 && nIn > 0 && integer {
		// defect family F5: a first integer key 0 is taken for "not sorted"
		zero := true
		for _, b := range it.keys[0] {
			zero = zero && b == 0
		}
		if zero {
			zz.Assert(serr == nil, "C19/valid-input-accepted/first-integer-key-zero")
			zz.Reach("C19/first-key-zero")
			if serr != nil {
				return
			}
		}
	}
	zz.Assert(serr == nil && err == nil, "C19/valid-input-accepted")
	if serr != nil || err != nil {
		return
	}
	got, _ := zz.Dump(env, "d")
	zz.Assert(len(got) == len(want.k), "C19/content/size")
	for _, kv := range got {
		zz.Assert(bytes.Equal(want.get(kv.K), kv.V), "C19/content/entry")
	}
	for i := 1; i < len(got); i++ {
		zz.Assert(vLess(integer, got[i-1].K, got[i].K), "C19/content/dbi-order")
	}
	zz.Reach("C19/done")
}

func VerifC19Update()         { verifC19(0, false, 1, 2, 2) }
func VerifC19IterUpdate()     { verifC19(1, false, 1, 2, 2) }
func VerifC19EmptyPut()       { verifC19(2, false, 1, 2, 2) }
func VerifC19Update2()        { verifC19(0, false, 2, 2, 2) }
func VerifC19IterUpdate2()    { verifC19(1, false, 2, 2, 2) }
func VerifC19EmptyPut2()      { verifC19(2, false, 2, 2, 2) }
func VerifC19IterUpdateInt()  { verifC19(1, true, 4, 2, 2) }
func VerifC19UpdateInt()      { verifC19(0, true, 4, 1, 2) }
func VerifC19IterUpdateInt8() { verifC19(1, true, 8, 1, 2) }
