//go:build verif

package sweeper

import (
	"bytes"
	"context"
	"time"

	"github.com/PowerDNS/lightningstream/config"
	zz "github.com/PowerDNS/lightningstream/internal/zzverif"
	"github.com/PowerDNS/lmdb-go/lmdb"
	"github.com/sirupsen/logrus"
)

func vStored(ts uint64, flags uint8, numExtra int, val []byte) []byte {
	b := make([]byte, 24+8*numExtra+len(val))
	for i := 0; i < 8; i++ {
		b[i] = byte(ts >> (56 - 8*uint(i)))
	}
	b[15] = 1 // txn id 1
	b[17] = flags
	b[22] = byte(numExtra >> 8)
	b[23] = byte(numExtra)
	copy(b[24+8*numExtra:], val)
	return b
}

// verifC13 runs one real sweeper pass (un-sliced: fewer than 1000 records) over entries whose
// age relative to the pass start is arbitrary, with an arbitrary retention.
func verifC13(native bool) {
	env := zz.NewEnv()
	lg := logrus.New()
	lg.SetLevel(logrus.PanicLevel)
	now := zz.NondetI64("now0")
	zz.Assume(zz.And(now >= 1500000000000000000, now < 1<<62))
	if zz.Symbolic() {
		zz.SetClock(now)
	} else {
		now = zz.ClockRead()
	}
	conf := config.Sweeper{Enabled: true, RetentionDays: zz.RetentionDaysRel("now0"), LockDuration: 50 * time.Millisecond, ReleaseDuration: time.Millisecond}
	sw := New("db", conf, env, lg, native)
	r := int64(conf.RetentionDuration())
	swept := "d"
	if !native {
		swept = "_sync_shadow_d"
	}
	type ent struct {
		key, stored []byte
		age         int64
		del         bool
	}
	var ents []ent
	keys := [][]byte{[]byte("a"), []byte("b")}
	// value length and extension count per entry are the sharding key
	sh := zz.Shard(16)
	lens := []int{sh % 2, sh / 2 % 2}
	extras := []int{sh / 4 % 2, sh / 8 % 2}
	err := env.Update(func(txn *lmdb.Txn) error {
		dbi, err := txn.OpenDBI(swept, lmdb.Create)
		if err != nil {
			return err
		}
		for i, k := range keys {
			nm := "e" + string(rune('0'+i))
			age := zz.NondetI64(nm + ".age")
			// written at any unsigned 64-bit timestamp from 1970 up to 2^63 ns after 'now': a negative
			// age is a timestamp in the future (clock skew, or >= 2^63), which is never expired
			zz.Assume(age <= now)
			fl := zz.NondetU8(nm + ".flags")
			vl := lens[i]
			if vl > 0 {
				zz.Assume(fl&1 == 0)
			}
			ne := extras[i]
			st := vStored(uint64(now-age), fl, ne, zz.NondetBytes(nm+".val", vl))
			if err := txn.Put(dbi, k, st, 0); err != nil {
				return err
			}
			ents = append(ents, ent{k, st, age, fl&1 != 0})
		}
		if !native {
			// application data without headers: must never be touched
			app, err := txn.OpenDBI("d", lmdb.Create)
			if err != nil {
				return err
			}
			// looks like an expired marker if misread as a header
			if err := txn.Put(app, []byte("a"), vStored(1, 1, 0, nil), 0); err != nil {
				return err
			}
		}
		return nil
	})
	if err != nil {
		zz.Assert(false, "harness/setup")
		return
	}
	serr := sw.sweep(context.Background())
	zz.Assert(serr == nil, "C13/sweep/no-error")
	after, _ := zz.Dump(env, swept)
	for _, e := range ents {
		var got []byte
		present := false
		for _, kv := range after {
			if bytes.Equal(kv.K, e.key) {
				got, present = kv.V, true
			}
		}
		// expired: older than the retention at the start of the pass
		expired := zz.And(e.del, e.age > r)
		young := zz.Or(!e.del, e.age < r)
		zz.Assert(zz.Implies(expired, !present), "C13/expired-marker-removed")
		zz.Assert(zz.Implies(zz.And(e.del, e.age < r), present), "C13/younger-marker-kept")
		zz.Assert(zz.Implies(!e.del, present), "C13/live-entry-kept")
		if present {
			zz.Assert(bytes.Equal(got, e.stored), "C13/kept-entry-unaltered")
		}
		_ = young
	}
	if !native {
		app, _ := zz.Dump(env, "d")
		zz.Assert(len(app) == 1 && bytes.Equal(app[0].V, vStored(1, 1, 0, nil)), "C13/non-native/application-data-untouched")
	}
	zz.Reach("C13/sweep/done")
}

func VerifC13Native() { verifC13(true) }
func VerifC13Shadow() { verifC13(false) }

// VerifC13Sliced: a pass over two DBIs where the first one holds more than 1000 entries, so
// that the hard-wired check interval is reached and the pass may be chopped into two write-lock
// slices (the clock reading at the check is arbitrary); the second DBI holds entries whose keys
// sort below the slice boundary of the first. Exactly the expired markers of both DBIs go.
func VerifC13Sliced() {
	env := zz.NewEnv()
	lg := logrus.New()
	lg.SetLevel(logrus.PanicLevel)
	// the clock advances by at most 1 ms between two readings: the pass is short compared
	// with the retention (at least an hour)
	zz.ClockAuto(true)
	zz.ClockStepMax(1000000)
	now := zz.ClockRead()
	conf := config.Sweeper{Enabled: true, RetentionDays: zz.RetentionDays(), LockDuration: time.Nanosecond, ReleaseDuration: 2 * time.Millisecond}
	sw := New("db", conf, env, lg, true)
	r := int64(conf.RetentionDuration())
	zz.Assume(zz.And(r > 3600000000000, r < 1<<50))
	old := uint64(now - r - r) // well expired
	young := uint64(now)       // written now
	type ent struct {
		dbi     string
		key, st []byte
		expired bool
	}
	var ents []ent
	err := env.Update(func(txn *lmdb.Txn) error {
		big, err := txn.OpenDBI("a-big", lmdb.Create)
		if err != nil {
			return err
		}
		small, err := txn.OpenDBI("b-small", lmdb.Create)
		if err != nil {
			return err
		}
		key := []byte("k0000")
		for i := 0; i < 1003; i++ {
			key[1], key[2], key[3], key[4] = byte('0'+i/1000), byte('0'+i/100%10), byte('0'+i/10%10), byte('0'+i%10)
			k := append([]byte{}, key...)
			// mostly live entries; an expired marker just before and just after the boundary
			var st []byte
			exp := i == 998 || i == 1001
			if exp {
				st = vStored(old, 1, 0, nil)
			} else {
				st = vStored(young, 0, 0, []byte("v"))
			}
			if err := txn.Put(big, k, st, 0); err != nil {
				return err
			}
			if i >= 997 {
				ents = append(ents, ent{"a-big", k, st, exp})
			}
		}
		for i, k := range [][]byte{[]byte("a"), []byte("k0500"), []byte("k0999"), []byte("z")} {
			exp := zz.NondetBool("small.expired" + string(rune('0'+i)))
			ts := zz.IteU64(exp, old, young)
			st := vStored(ts, 1, 0, nil) // a deletion marker, expired or young
			if err := txn.Put(small, k, st, 0); err != nil {
				return err
			}
			ents = append(ents, ent{"b-small", k, st, exp})
		}
		return nil
	})
	if err != nil {
		zz.Assert(false, "harness/setup")
		return
	}
	// natively an application keeps committing to a DBI of its own while the pass runs (between
	// the slices it gets the write lock); under the engine goroutines of non-thread harnesses
	// are not run, the model instead enforces the lifetime of memory read in a transaction
	stop := make(chan struct{})
	done := make(chan struct{})
	if !zz.Symbolic() {
		go func() {
			defer close(done)
			for i := 0; ; i++ {
				select {
				case <-stop:
					return
				default:
				}
				_ = env.Update(func(txn *lmdb.Txn) error {
					app, err := txn.OpenDBI("zz-app", lmdb.Create)
					if err != nil {
						return err
					}
					for j := 0; j < 20; j++ {
						k := []byte{'w', byte('a' + (i+j)%26), byte('a' + j)}
						if (i+j)%3 == 0 {
							_ = txn.Del(app, k, nil)
						} else if err := txn.Put(app, k, vStored(young, 0, 0, bytes.Repeat([]byte("w"), 40+j)), 0); err != nil {
							return err
						}
					}
					return nil
				})
			}
		}()
	}
	serr := sw.sweep(context.Background())
	close(stop)
	if !zz.Symbolic() {
		<-done
	}
	zz.Assert(serr == nil, "C13/sliced/no-error")
	if sw.lastStats.nTxn > 2 {
		zz.Reach("C13/sliced/pass-was-chopped")
	}
	da, _ := zz.Dump(env, "a-big")
	db, _ := zz.Dump(env, "b-small")
	for _, e := range ents {
		d := da
		if e.dbi == "b-small" {
			d = db
		}
		present := false
		var got []byte
		for _, kv := range d {
			if bytes.Equal(kv.K, e.key) {
				present, got = true, kv.V
			}
		}
		zz.Assert(zz.Implies(e.expired, !present), "C13/sliced/expired-marker-removed")
		zz.Assert(zz.Implies(!e.expired, present), "C13/sliced/other-entries-kept")
		if present {
			zz.Assert(bytes.Equal(got, e.st), "C13/sliced/kept-entry-unaltered")
		}
	}
	zz.Reach("C13/sliced/done")
}

// verifC13Fractional: the documented meaning of sweeper.retention_days ("a float, so it is
// possible to use periods shorter than one day") with a concrete setting from a table that
// includes fractional values; the real float32 arithmetic of RetentionDuration() is executed.
// The expected retention is computed independently in integers (days = num/8); float32 leaves
// a relative error below 2^-21, which is the only slack. One marker of arbitrary age.
func verifC13Fractional(native bool) {
	env := zz.NewEnv()
	lg := logrus.New()
	lg.SetLevel(logrus.PanicLevel)
	now := zz.NondetI64("now0")
	zz.Assume(zz.And(now >= 1500000000000000000, now < 1<<62))
	if zz.Symbolic() {
		zz.SetClock(now)
	} else {
		now = zz.ClockRead()
	}
	eighths := []int64{4, 12, 2, 16, 62, 2960, 1} // 0.5, 1.5, 0.25, 2, 7.75, 370, 0.125 days
	num := eighths[zz.Shard(len(eighths))]
	conf := config.Sweeper{Enabled: true, RetentionDays: float32(num) / 8, LockDuration: 50 * time.Millisecond, ReleaseDuration: time.Millisecond}
	exact := num * int64(3*time.Hour)
	tol := exact >> 21
	sw := New("db", conf, env, lg, native)
	swept := "d"
	if !native {
		swept = "_sync_shadow_d"
	}
	age := zz.NondetI64("e.age")
	zz.Assume(zz.And(age >= 0, age <= now))
	stored := vStored(uint64(now-age), 1, 0, nil)
	err := env.Update(func(txn *lmdb.Txn) error {
		dbi, err := txn.OpenDBI(swept, lmdb.Create)
		if err != nil {
			return err
		}
		return txn.Put(dbi, []byte("a"), stored, 0)
	})
	if err != nil {
		zz.Assert(false, "harness/setup")
		return
	}
	serr := sw.sweep(context.Background())
	zz.Assert(serr == nil, "C13/fractional/no-error")
	after, _ := zz.Dump(env, swept)
	present := len(after) == 1
	zz.Assert(zz.Implies(age < exact-tol, present), "C13/fractional/younger-marker-kept")
	zz.Assert(zz.Implies(age > exact+tol, !present), "C13/fractional/expired-marker-removed")
	zz.Reach("C13/fractional/done")
}

func VerifC13FractionalNative() { verifC13Fractional(true) }
func VerifC13FractionalShadow() { verifC13Fractional(false) }
