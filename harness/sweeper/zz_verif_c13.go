//go:build verif

package sweeper

import (
	"bytes"
	"context"
	"time"

	"github.com/PowerDNS/lightningstream/config"
	zz "github.com/PowerDNS/lightningstream/internal/zzverif"
	"github.com/PowerDNS/lmdb-go/lmdb"
	"github.com/sirupsen/logrus"
)

func vStored(ts uint64, flags uint8, numExtra int, val []byte) []byte {
	b := make([]byte, 24+8*numExtra+len(val))
	for i := 0; i < 8; i++ {
		b[i] = byte(ts >> (56 - 8*uint(i)))
	}
	b[15] = 1 // txn id 1
	b[17] = flags
	b[22] = byte(numExtra >> 8)
	b[23] = byte(numExtra)
	copy(b[24+8*numExtra:], val)
	return b
}

// verifC13 runs one real sweeper pass (un-sliced: fewer than 1000 records) over entries whose
// age relative to the pass start is arbitrary, with an arbitrary retention.
func verifC13(native bool) {
	env := zz.NewEnv()
	lg := logrus.New()
	lg.SetLevel(logrus.PanicLevel)
	now := zz.NondetI64("now0")
	zz.Assume(zz.And(now >= 1500000000000000000, now < 1<<62))
	if zz.Symbolic() {
		zz.SetClock(now)
	} else {
		now = zz.ClockRead()
	}
	conf := config.Sweeper{Enabled: true, RetentionDays: zz.RetentionDaysRel("now0"), LockDuration: 50 * time.Millisecond, ReleaseDuration: time.Millisecond}
	sw := New("db", conf, env, lg, native)
	r := int64(conf.RetentionDuration())
	swept := "d"
	if !native {
		swept = "_sync_shadow_d"
	}
	type ent struct {
		key, stored []byte
		age          int64
		del          bool
	}
	var ents []ent
	keys := [][]byte{[]byte("a"), []byte("b")}
	// value length and extension count per entry are the sharding key
	sh := zz.Shard(16)
	lens := []int{sh % 2, sh / 2 % 2}
	extras := []int{sh / 4 % 2, sh / 8 % 2}
	err := env.Update(func(txn *lmdb.Txn) error {
		dbi, err := txn.OpenDBI(swept, lmdb.Create)
		if err != nil {
			return err
		}
		for i, k := range keys {
			nm := "e" + string(rune('0'+i))
			age := zz.NondetI64(nm + ".age")
			zz.Assume(zz.And(age >= 0, age <= now)) // written between 1970 and now
			fl := zz.NondetU8(nm + ".flags")
			vl := lens[i]
			if vl > 0 {
				zz.Assume(fl&1 == 0)
			}
			ne := extras[i]
			st := vStored(uint64(now-age), fl, ne, zz.NondetBytes(nm+".val", vl))
			if err := txn.Put(dbi, k, st, 0); err != nil {
				return err
			}
			ents = append(ents, ent{k, st, age, fl&1 != 0})
		}
		if !native {
			// application data without headers: must never be touched
			app, err := txn.OpenDBI("d", lmdb.Create)
			if err != nil {
				return err
			}
			// looks like an expired marker if misread as a header
			if err := txn.Put(app, []byte("a"), vStored(1, 1, 0, nil), 0); err != nil {
				return err
			}
		}
		return nil
	})
	if err != nil {
		zz.Assert(false, "harness/setup")
		return
	}
	serr := sw.sweep(context.Background())
	zz.Assert(serr == nil, "C13/sweep/no-error")
	after, _ := zz.Dump(env, swept)
	for _, e := range ents {
		var got []byte
		present := false
		for _, kv := range after {
			if bytes.Equal(kv.K, e.key) {
				got, present = kv.V, true
			}
		}
		// expired: older than the retention at the start of the pass
		expired := zz.And(e.del, e.age > r)
		young := zz.Or(!e.del, e.age < r)
		zz.Assert(zz.Implies(expired, !present), "C13/expired-marker-removed")
		zz.Assert(zz.Implies(zz.And(e.del, e.age < r), present), "C13/younger-marker-kept")
		zz.Assert(zz.Implies(!e.del, present), "C13/live-entry-kept")
		if present {
			zz.Assert(bytes.Equal(got, e.stored), "C13/kept-entry-unaltered")
		}
		_ = young
	}
	if !native {
		app, _ := zz.Dump(env, "d")
		zz.Assert(len(app) == 1 && bytes.Equal(app[0].V, vStored(1, 1, 0, nil)), "C13/non-native/application-data-untouched")
	}
	zz.Reach("C13/sweep/done")
}

func VerifC13Native() { verifC13(true) }
func VerifC13Shadow() { verifC13(false) }
