#!/usr/bin/env python3
"""Regenerates MANIFEST.json from props.json (claimed checks) and na.json (not applicable)."""
import json, os
ROOT=os.path.dirname(os.path.abspath(__file__))
props=json.load(open(os.path.join(ROOT,'props.json')))
na=json.load(open(os.path.join(ROOT,'na.json')))
ids=[json.loads(l)['id'] for l in open(os.path.join(ROOT,'properties.jsonl'))]
checks=[]
for pid in ids:
    if pid not in props: continue
    sp=props[pid]
    c={"property_id":pid,
       "quick_cmd":"./check %s quick"%pid,
       "evidence_file":"/verif/evidence/%s.json"%pid,
       "replay_cmd_template":"./check %s --replay {path}"%pid,
       "engine":"gosym",
       "level_claimed":{"category":"other",
          "text":"Bounded symbolic execution of the real code (go/ssa of the current tree) with SMT (z3): every assertion and implicit check is discharged for all values of the symbolic inputs within the stated bounds, or a counterexample is returned and replayed natively. "+sp.get("level_text",""),
          "design_ref":"DESIGN.md section 5, "+pid},
       "level_note":"Bounds: "+json.dumps(sp.get("bounds",{}))+" Outside: "+sp.get("outside","")+" Assumptions/stubs: "+"; ".join(sp.get("assumptions",[])),
       "technique":"SMT-based bounded symbolic execution of go/ssa (own executor, z3 bit-vectors), native replay of counterexamples"}
    if "thorough" in sp["jobs"]:
        c["thorough_cmd"]="./check %s thorough"%pid
    checks.append(c)
m={"version":1,
   "setup_cmd":"cd /verif/engine && GOFLAGS=-mod=mod GOPROXY=off GOSUMDB=off GOTOOLCHAIN=local PATH=/opt/veriftools/go1.26.8/bin:$PATH go build -o /verif/bin/gosym .",
   "hooks":{"guard":"verif","enable":"go build tag 'verif'; harnesses and models are injected through go/packages Overlay and go test -overlay (no file in /repo is needed for them)",
            "baseline_off_cmd":"cd /repo && GOFLAGS=-mod=mod go test -vet=off -count=1 ./...",
            "source_commits":json.load(open(os.path.join(ROOT,'hooks.json')))["commits"],"add_only":True},
   "engines":[{"name":"gosym","path":"/verif/engine","serves_properties":[c["property_id"] for c in checks],
               "kind_free_text":"symbolic executor for Go SSA (golang.org/x/tools/go/ssa v0.50.0) producing SMT-LIB2 bit-vector queries for z3; DFS by re-execution with push/pop; native replay via go test -overlay"}],
   "checks":checks,
   "notes":"exit 0 held / exit 1 VIOLATION / exit 2 inconclusive (unknown, timeout, unsupported construct, vacuous harness, counterexample that does not replay).",
   "not_applicable":[{"property_id":pid,"reason":na[pid]} for pid in ids if pid not in props]}
missing=[pid for pid in ids if pid not in props and pid not in na]
assert not missing, missing
json.dump(m,open(os.path.join(ROOT,'MANIFEST.json'),'w'),indent=1)
print("claimed:",[c["property_id"] for c in checks])
