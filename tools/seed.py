#!/usr/bin/env python3
"""seed.py import <wt-dir> <seed-id> <property>   - take patch + demo from a sub-agent's scratch worktree
   seed.py verify <seed-id>                        - confirm in a fresh scratch worktree: suite passes with the
                                                     change, demo fails with it and passes without it
   seed.py run <seed-id> [tier]                    - apply to /repo, run the property's check, undo"""
import json, os, shutil, subprocess, sys, glob, time

ROOT = "/verif"
SEEDED = os.path.join(ROOT, "seeded")
ENV = dict(os.environ, GOFLAGS="-mod=mod", GOPROXY="off")
ENV.pop("GOTOOLCHAIN", None); ENV.pop("GOSUMDB", None)


def sh(cmd, cwd=None, env=None, timeout=1800):
    r = subprocess.run(cmd, shell=True, cwd=cwd, env=env or ENV, stdout=subprocess.PIPE, stderr=subprocess.STDOUT, text=True, errors="replace", timeout=timeout)
    return r.returncode, r.stdout


def cmd_import(wt, sid, prop):
    d = os.path.join(SEEDED, sid)
    os.makedirs(os.path.join(d, "demo"), exist_ok=True)
    rc, diff = sh("git diff", cwd=wt)
    open(os.path.join(d, "patch.diff"), "w").write(diff)
    rc, out = sh("git ls-files --others --exclude-standard", cwd=wt)
    demos = []
    for f in out.split():
        if f.endswith("_test.go"):
            dst = os.path.join(d, "demo", f.replace("/", "__"))
            shutil.copy(os.path.join(wt, f), dst)
            demos.append(f)
    if os.path.exists(os.path.join(wt, "SEED.md")):
        shutil.copy(os.path.join(wt, "SEED.md"), os.path.join(d, "SEED.md"))
    meta = {"seed": sid, "property": prop, "demo_files": demos, "patch_lines": len(diff.splitlines())}
    json.dump(meta, open(os.path.join(d, "meta.json"), "w"), indent=1)
    print("imported", sid, demos, "patch lines", meta["patch_lines"])


def cmd_verify(sid):
    d = os.path.join(SEEDED, sid)
    meta = json.load(open(os.path.join(d, "meta.json")))
    wt = "/tmp/sv_" + sid
    sh("git -C /repo worktree remove --force %s" % wt)
    rc, out = sh("git -C /repo worktree add -q --detach %s HEAD" % wt)
    try:
        rc, out = sh("git apply %s" % os.path.join(d, "patch.diff"), cwd=wt)
        if rc != 0:
            print("patch does not apply:", out); meta["verified"] = False; return
        rc, out = sh("go build ./... && go test -vet=off -count=1 ./...", cwd=wt)
        meta["suite_passes_with_change"] = rc == 0
        pkgs = set()
        for f in meta["demo_files"]:
            shutil.copy(os.path.join(d, "demo", f.replace("/", "__")), os.path.join(wt, f))
            pkgs.add("./" + os.path.dirname(f))
        pk = " ".join(sorted(pkgs))
        rc, out1 = sh("go test -vet=off -count=1 -run 'Seed|seed|SEED' %s" % pk, cwd=wt, timeout=900)
        meta["demo_fails_with_change"] = rc != 0
        sh("git apply -R %s" % os.path.join(d, "patch.diff"), cwd=wt)
        rc, out2 = sh("go test -vet=off -count=1 -run 'Seed|seed|SEED' %s" % pk, cwd=wt, timeout=900)
        meta["demo_passes_without_change"] = rc == 0
        meta["verified"] = bool(meta["suite_passes_with_change"] and meta["demo_fails_with_change"] and meta["demo_passes_without_change"])
        meta["verify_cmds"] = ["git apply patch.diff; go build ./... && go test -vet=off -count=1 ./...",
                               "go test -vet=off -count=1 -run 'Seed|seed|SEED' " + pk, "git apply -R patch.diff; same demo command"]
        if not meta["verified"]:
            print(out1[-1500:]); print(out2[-1500:])
    finally:
        sh("git -C /repo worktree remove --force %s" % wt)
        json.dump(meta, open(os.path.join(d, "meta.json"), "w"), indent=1)
    print(sid, "verified" if meta["verified"] else "NOT VERIFIED", {k: meta.get(k) for k in ("suite_passes_with_change", "demo_fails_with_change", "demo_passes_without_change")})


def cmd_run(sid, tier="quick", props=None):
    d = os.path.join(SEEDED, sid)
    meta = json.load(open(os.path.join(d, "meta.json")))
    rc, out = sh("git -C /repo status --porcelain")
    if out.strip():
        print("/repo not clean:", out); sys.exit(2)
    rc, out = sh("git -C /repo apply %s" % os.path.join(d, "patch.diff"))
    if rc != 0:
        print("patch does not apply to /repo:", out); sys.exit(2)
    res = {}
    try:
        for prop in (props or [meta["property"]]):
            t0 = time.time()
            rc, out = sh("./check %s %s" % (prop, tier), cwd=ROOT, env=dict(os.environ), timeout=3600)
            lines = [l for l in out.splitlines() if l.startswith(("VIOLATION", "KNOWN-FINDING", "INCONCLUSIVE", prop))]
            res[prop] = {"exit": rc, "lines": [l[:300] for l in lines][:12], "wall_s": round(time.time() - t0, 1)}
            print(sid, prop, tier, "exit", rc)
            for l in lines[:8]:
                print("   ", l[:240])
    finally:
        sh("git -C /repo checkout -- .")
    meta.setdefault("check_results", {})[tier] = res
    meta["detected_" + tier] = any(v["exit"] == 1 for v in res.values())
    json.dump(meta, open(os.path.join(d, "meta.json"), "w"), indent=1)


if __name__ == "__main__":
    a = sys.argv[1:]
    if a[0] == "import":
        cmd_import(a[1], a[2], a[3])
    elif a[0] == "verify":
        cmd_verify(a[1])
    elif a[0] == "run":
        cmd_run(a[1], a[2] if len(a) > 2 else "quick", a[3:] or None)
