package main

import (
	"bufio"
	"fmt"
	"io"
	"os"
	"os/exec"
	"strconv"
	"strings"
	"time"
)

type SatResult int

const (
	Unsat SatResult = iota
	Sat
	Unknown
)

func (r SatResult) String() string { return [...]string{"unsat", "sat", "unknown"}[r] }

// Solver drives one long-lived SMT solver process over stdin/stdout.
type Solver struct {
	cmd     *exec.Cmd
	in      io.WriteCloser
	out     *bufio.Reader
	em      *Emitter
	depth   int
	depth0  bool
	log     *os.File
	Queries int
	NSat    int
	NUnsat  int
	NUnk    int
	Time    time.Duration
	bin     string
	timeout int
	Errors  []string

	// mirror of everything sent, for the fallback solver
	decls     strings.Builder
	stack     [][]string
	lastModel map[string]uint64
	Fallbacks int
	FallbackT time.Duration
	SendT     time.Duration // time blocked writing to the solver (it is busy digesting earlier commands)
	SentBytes int64
	CPU       time.Duration // solver process CPU time (set by Close)
}

func NewSolver(bin string, timeoutMs int, logPath string) (*Solver, error) {
	s := &Solver{bin: bin, timeout: timeoutMs}
	if logPath != "" {
		f, err := os.Create(logPath)
		if err != nil {
			return nil, err
		}
		s.log = f
	}
	if err := s.start(); err != nil {
		return nil, err
	}
	return s, nil
}

func (s *Solver) start() error {
	var args []string
	switch {
	case strings.Contains(s.bin, "cvc5"):
		args = []string{"--incremental", "--lang=smt2", "--produce-models", fmt.Sprintf("--tlimit-per=%d", s.timeout)}
	default:
		args = []string{"-in", "-smt2"}
	}
	s.cmd = exec.Command(s.bin, args...)
	in, err := s.cmd.StdinPipe()
	if err != nil {
		return err
	}
	out, err := s.cmd.StdoutPipe()
	if err != nil {
		return err
	}
	s.cmd.Stderr = s.cmd.Stdout
	if err := s.cmd.Start(); err != nil {
		return err
	}
	s.in = in
	s.out = bufio.NewReaderSize(out, 1<<20)
	s.em = NewEmitter()
	s.depth = 0
	if !strings.Contains(s.bin, "cvc5") {
		s.send(fmt.Sprintf("(set-option :timeout %d)\n", s.timeout))
		s.send("(set-option :global-declarations true)\n")
	} else {
		s.send("(set-option :global-declarations true)\n(set-logic QF_BV)\n")
	}
	s.send("(set-option :produce-models true)\n")
	return nil
}

func (s *Solver) Close() {
	if s.in != nil {
		s.in.Close()
	}
	if s.cmd != nil && s.cmd.Process != nil {
		s.cmd.Process.Kill()
		s.cmd.Wait()
		if ps := s.cmd.ProcessState; ps != nil {
			s.CPU = ps.UserTime() + ps.SystemTime()
		}
	}
	if s.log != nil {
		s.log.Close()
	}
}

func (s *Solver) send(txt string) {
	if s.log != nil {
		s.log.WriteString(txt)
	}
	t0 := time.Now()
	if _, err := io.WriteString(s.in, txt); err != nil {
		panic(fmt.Sprintf("solver write: %v", err))
	}
	s.SendT += time.Since(t0)
	s.SentBytes += int64(len(txt))
}

func (s *Solver) flushDefs() {
	if s.em.out.Len() > 0 {
		s.decls.WriteString(s.em.out.String())
		s.send(s.em.out.String())
		s.em.out.Reset()
	}
}

func (s *Solver) Push() {
	s.send("(push 1)\n")
	s.depth++
	s.stack = append(s.stack, nil)
}

func (s *Solver) Pop(n int) {
	if n <= 0 {
		return
	}
	s.send(fmt.Sprintf("(pop %d)\n", n))
	s.depth -= n
	s.stack = s.stack[:len(s.stack)-n]
}

func (s *Solver) PopTo(d int) { s.Pop(s.depth - d) }

func (s *Solver) Assert(t *Term) {
	r := s.em.ref(t)
	s.flushDefs()
	s.send("(assert " + r + ")\n")
	if len(s.stack) == 0 {
		s.stack = append(s.stack, nil)
		s.depth0 = true
	}
	s.stack[len(s.stack)-1] = append(s.stack[len(s.stack)-1], "(assert "+r+")")
}

func (s *Solver) readLine() string {
	line, err := s.out.ReadString('\n')
	if err != nil {
		panic(fmt.Sprintf("solver read: %v (%q)", err, line))
	}
	return strings.TrimSpace(line)
}

func (s *Solver) Check() SatResult {
	t0 := time.Now()
	s.send("(check-sat)\n")
	res := Unknown
	for {
		line := s.readLine()
		if line == "" {
			continue
		}
		switch line {
		case "sat":
			res = Sat
		case "unsat":
			res = Unsat
		case "unknown", "timeout":
			res = Unknown
		default:
			// error or warning line: inconclusive
			s.Errors = append(s.Errors, line)
			if strings.HasPrefix(line, "(error") {
				// keep reading until we get an answer; answer is then untrusted
				continue
			}
			continue
		}
		break
	}
	if len(s.Errors) > 0 {
		res = Unknown
	}
	s.lastModel = nil
	if res == Unknown && len(s.Errors) == 0 {
		res = s.fallback()
	}
	s.Queries++
	switch res {
	case Sat:
		s.NSat++
	case Unsat:
		s.NUnsat++
	default:
		s.NUnk++
	}
	dt := time.Since(t0)
	s.Time += dt
	if s.log != nil {
		fmt.Fprintf(s.log, "; -> %s in %.1fms\n", res, float64(dt.Microseconds())/1000)
	}
	return res
}

// fallback re-runs the current assertion stack in cvc5 (integer encoding first, which
// decides multiply/divide-by-constant kernels that stall bit-blasting, then plain).
func (s *Solver) fallback() SatResult {
	t0 := time.Now()
	defer func() { s.FallbackT += time.Since(t0) }()
	s.Fallbacks++
	var sb strings.Builder
	sb.WriteString("(set-option :produce-models true)\n(set-logic QF_BV)\n")
	sb.WriteString(s.decls.String())
	for _, lvl := range s.stack {
		for _, a := range lvl {
			sb.WriteString(a)
			sb.WriteByte('\n')
		}
	}
	sb.WriteString("(check-sat)\n")
	var names []string
	for v := range s.em.declared {
		names = append(names, smtName(v.Name))
	}
	if len(names) > 0 {
		sb.WriteString("(get-value (" + strings.Join(names, " ") + "))\n")
	}
	f, err := os.CreateTemp("", "gosym_fb_*.smt2")
	if err != nil {
		return Unknown
	}
	defer os.Remove(f.Name())
	f.WriteString(sb.String())
	f.Close()
	to := s.timeout * 3
	for _, args := range [][]string{{"--solve-bv-as-int=sum"}, {}} {
		cmd := exec.Command("cvc5", append(args, fmt.Sprintf("--tlimit=%d", to), f.Name())...)
		out, _ := cmd.Output()
		txt := string(out)
		first := strings.TrimSpace(strings.SplitN(txt, "\n", 2)[0])
		switch first {
		case "unsat":
			return Unsat
		case "sat":
			m := map[string]uint64{}
			if i := strings.Index(txt, "(("); i >= 0 {
				parseValues(txt[i:], m)
			}
			s.lastModel = m
			return Sat
		}
	}
	return Unknown
}

// Values reads the model values of the given variables (after Sat).
func (s *Solver) Values(vars []*Term) map[string]uint64 {
	if s.lastModel != nil {
		return s.lastModel
	}
	m := map[string]uint64{}
	if len(vars) == 0 {
		return m
	}
	// only ask for declared vars
	var names []string
	var vs []*Term
	for _, v := range vars {
		if s.em.declared[v] {
			names = append(names, smtName(v.Name))
			vs = append(vs, v)
		}
	}
	for i := 0; i < len(vs); i += 200 {
		j := i + 200
		if j > len(vs) {
			j = len(vs)
		}
		s.send("(get-value (" + strings.Join(names[i:j], " ") + "))\n")
		txt := s.readSexp()
		parseValues(txt, m)
	}
	return m
}

// readSexp reads one balanced s-expression from the solver.
func (s *Solver) readSexp() string {
	var sb strings.Builder
	depth := 0
	started := false
	inBar := false
	for {
		c, err := s.out.ReadByte()
		if err != nil {
			panic("solver read sexp: " + err.Error())
		}
		sb.WriteByte(c)
		if inBar {
			if c == '|' {
				inBar = false
			}
			continue
		}
		switch c {
		case '|':
			inBar = true
		case '(':
			depth++
			started = true
		case ')':
			depth--
		}
		if started && depth == 0 {
			return sb.String()
		}
	}
}

func parseValues(txt string, m map[string]uint64) {
	// ((|name| #x..) (|name2| #b..) (|b| true))
	i := 0
	n := len(txt)
	for i < n {
		// find next '(' followed by name
		for i < n && txt[i] != '|' {
			i++
		}
		if i >= n {
			return
		}
		j := strings.IndexByte(txt[i+1:], '|')
		if j < 0 {
			return
		}
		name := txt[i+1 : i+1+j]
		i = i + 1 + j + 1
		for i < n && (txt[i] == ' ' || txt[i] == '\n') {
			i++
		}
		k := i
		for k < n && txt[k] != ')' && txt[k] != ' ' && txt[k] != '\n' {
			k++
		}
		tok := txt[i:k]
		i = k
		switch {
		case tok == "true":
			m[name] = 1
		case tok == "false":
			m[name] = 0
		case strings.HasPrefix(tok, "#x"):
			v, _ := strconv.ParseUint(tok[2:], 16, 64)
			m[name] = v
		case strings.HasPrefix(tok, "#b"):
			v, _ := strconv.ParseUint(tok[2:], 2, 64)
			m[name] = v
		case strings.HasPrefix(tok, "(_"):
			// (_ bv123 8)
			rest := txt[i:]
			f := strings.Fields(rest)
			if len(f) > 0 && strings.HasPrefix(f[0], "bv") {
				v, _ := strconv.ParseUint(f[0][2:], 10, 64)
				m[name] = v
			}
		}
	}
}
