package main

const lmdbPkg = "github.com/PowerDNS/lmdb-go/lmdb"

// redirectTable maps real callees to model functions (ordinary Go in the
// harness runtime package) that are executed symbolically in their place.
var redirectTable = map[string]string{
	zzPath + ".NewEnv":                  zzPath + ".MNewEnv",
	zzPath + ".TxnCounts":               zzPath + ".MTxnCounts",
	zzPath + ".SetFault":                zzPath + ".MSetFault",
	repoMod + "/snapshot.DumpData":      repoMod + "/snapshot.VDumpData",
	repoMod + "/snapshot.LoadData":      repoMod + "/snapshot.VLoadData",
	"(*" + lmdbPkg + ".Env).Info":       zzPath + ".MEnvInfo",
	"(*" + lmdbPkg + ".Env).View":       zzPath + ".MEnvView",
	"(*" + lmdbPkg + ".Env).Update":     zzPath + ".MEnvUpdate",
	"(*" + lmdbPkg + ".Txn).ID":         zzPath + ".MTxnID",
	"(*" + lmdbPkg + ".Txn).OpenDBI":    zzPath + ".MTxnOpenDBI",
	"(*" + lmdbPkg + ".Txn).CreateDBI":  zzPath + ".MTxnCreateDBI",
	"(*" + lmdbPkg + ".Txn).OpenRoot":   zzPath + ".MTxnOpenRoot",
	"(*" + lmdbPkg + ".Txn).Flags":      zzPath + ".MTxnFlags",
	"(*" + lmdbPkg + ".Txn).Stat":       zzPath + ".MTxnStat",
	"(*" + lmdbPkg + ".Txn).Get":        zzPath + ".MTxnGet",
	"(*" + lmdbPkg + ".Txn).Put":        zzPath + ".MTxnPut",
	"(*" + lmdbPkg + ".Txn).Del":        zzPath + ".MTxnDel",
	"(*" + lmdbPkg + ".Txn).Drop":       zzPath + ".MTxnDrop",
	"(*" + lmdbPkg + ".Txn).OpenCursor": zzPath + ".MTxnOpenCursor",
	"(*" + lmdbPkg + ".Cursor).Get":     zzPath + ".MCursorGet",
	"(*" + lmdbPkg + ".Cursor).Put":     zzPath + ".MCursorPut",
	"(*" + lmdbPkg + ".Cursor).Del":     zzPath + ".MCursorDel",
	"(*" + lmdbPkg + ".Cursor).Close":   zzPath + ".MCursorClose",
}

// functions of lmdb-go that are executed from their real SSA (pure Go helpers)
var lmdbExec = map[string]bool{
	lmdbPkg + ".IsNotFound": true, lmdbPkg + ".IsMapFull": true, lmdbPkg + ".IsErrno": true,
	lmdbPkg + ".IsErrnoFn": true, lmdbPkg + ".IsErrno$1": true, lmdbPkg + ".IsMapResized": true,
}
