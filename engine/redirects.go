package main

// redirectTable maps real callees to model functions executed symbolically.
var redirectTable = map[string]string{}
