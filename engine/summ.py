import sys,json
txt=sys.stdin.read()
i=txt.index('[\n')
sys.stdout.write(txt[:i])
for r in json.loads(txt[i:]):
    print('==',r['job']['id'], r['job']['func'])
    for k in ['paths','paths_by_kind','obligations','discharged','concrete_obligations','solver_queries','solver_time_s','wall_s','unknowns','unsupported','reached','error','solver_errors','ssa_steps']:
        if r.get(k): print('  ',k, r.get(k))
    for v in r['violations'] or []: print('   VIOL', v['label'], 'x',v['count'], v['values'])
    if '-v' in sys.argv: print('   stubs',r['stubs_hit']); print('   labels',r['assert_labels'])
