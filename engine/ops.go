package main

import (
	"fmt"
	"go/token"
	"go/types"
	"math"

	"golang.org/x/tools/go/ssa"
)

func (e *Exec) binop(op token.Token, xt, yt types.Type, x, y Value) Value {
	ts := e.ts
	switch xv := x.(type) {
	case *Term:
		yv, ok := y.(*Term)
		if !ok {
			e.unsupported("binop %s between Term and %T", op, y)
		}
		w, signed, _ := intWidth(xt)
		if xv.W == 0 {
			// booleans
			switch op {
			case token.EQL:
				return ts.Eq(xv, yv)
			case token.NEQ:
				return ts.Not(ts.Eq(xv, yv))
			case token.AND, token.LAND:
				return ts.And(xv, yv)
			case token.OR, token.LOR:
				return ts.Or(xv, yv)
			}
			e.unsupported("bool binop %s", op)
		}
		_ = w
		switch op {
		case token.SHL, token.SHR:
			return e.shift(op, xv, yv, signed, yt)
		}
		if xv.W != yv.W {
			e.unsupported("binop %s width mismatch %d/%d", op, xv.W, yv.W)
		}
		switch op {
		case token.ADD:
			return ts.Bin(OpAdd, xv, yv)
		case token.SUB:
			return ts.Bin(OpSub, xv, yv)
		case token.MUL:
			return ts.Bin(OpMul, xv, yv)
		case token.QUO:
			e.require(ts.Not(ts.Eq(yv, ts.Const(yv.W, 0))), "integer divide by zero")
			if signed {
				return ts.Bin(OpSDiv, xv, yv)
			}
			return ts.Bin(OpUDiv, xv, yv)
		case token.REM:
			e.require(ts.Not(ts.Eq(yv, ts.Const(yv.W, 0))), "integer divide by zero")
			if signed {
				return ts.Bin(OpSRem, xv, yv)
			}
			return ts.Bin(OpURem, xv, yv)
		case token.AND:
			return ts.Bin(OpBAnd, xv, yv)
		case token.OR:
			return ts.Bin(OpBOr, xv, yv)
		case token.XOR:
			return ts.Bin(OpBXor, xv, yv)
		case token.AND_NOT:
			return ts.Bin(OpBAnd, xv, ts.BNot(yv))
		case token.EQL:
			return ts.Eq(xv, yv)
		case token.NEQ:
			return ts.Not(ts.Eq(xv, yv))
		case token.LSS:
			if signed {
				return ts.Cmp(OpSlt, xv, yv)
			}
			return ts.Cmp(OpUlt, xv, yv)
		case token.LEQ:
			if signed {
				return ts.Cmp(OpSle, xv, yv)
			}
			return ts.Cmp(OpUle, xv, yv)
		case token.GTR:
			if signed {
				return ts.Cmp(OpSlt, yv, xv)
			}
			return ts.Cmp(OpUlt, yv, xv)
		case token.GEQ:
			if signed {
				return ts.Cmp(OpSle, yv, xv)
			}
			return ts.Cmp(OpUle, yv, xv)
		}
	case FloatV:
		yv, ok := y.(FloatV)
		if !ok {
			e.unsupported("float binop with %T", y)
		}
		if xv.Opaque || yv.Opaque {
			switch op {
			case token.ADD, token.SUB, token.MUL, token.QUO:
				return FloatV{Opaque: true}
			}
			e.unsupported("comparison on opaque float")
		}
		rnd := func(f float64) Value {
			if b, ok := xt.Underlying().(*types.Basic); ok && b.Kind() == types.Float32 {
				return FloatV{F: float64(float32(f))} // float32 arithmetic rounds every result
			}
			return FloatV{F: f}
		}
		switch op {
		case token.ADD:
			return rnd(xv.F + yv.F)
		case token.SUB:
			return rnd(xv.F - yv.F)
		case token.MUL:
			return rnd(xv.F * yv.F)
		case token.QUO:
			return rnd(xv.F / yv.F)
		case token.EQL:
			return ts.Bool(xv.F == yv.F)
		case token.NEQ:
			return ts.Bool(xv.F != yv.F)
		case token.LSS:
			return ts.Bool(xv.F < yv.F)
		case token.LEQ:
			return ts.Bool(xv.F <= yv.F)
		case token.GTR:
			return ts.Bool(xv.F > yv.F)
		case token.GEQ:
			return ts.Bool(xv.F >= yv.F)
		}
	case *StrV:
		yv, ok := y.(*StrV)
		if !ok {
			e.unsupported("string binop with %T", y)
		}
		switch op {
		case token.ADD:
			if xv.Concrete() && yv.Concrete() {
				return &StrV{S: xv.S + yv.S}
			}
			return e.mkStr(append(append([]*Term{}, e.strBytes(xv)...), e.strBytes(yv)...))
		case token.EQL:
			return e.bytesEq(e.strBytes(xv), e.strBytes(yv))
		case token.NEQ:
			return ts.Not(e.bytesEq(e.strBytes(xv), e.strBytes(yv)))
		case token.LSS, token.LEQ, token.GTR, token.GEQ:
			c := e.bytesCompare(e.strBytes(xv), e.strBytes(yv))
			z := ts.Const(64, 0)
			switch op {
			case token.LSS:
				return ts.Cmp(OpSlt, c, z)
			case token.LEQ:
				return ts.Cmp(OpSle, c, z)
			case token.GTR:
				return ts.Cmp(OpSlt, z, c)
			default:
				return ts.Cmp(OpSle, z, c)
			}
		}
	}
	switch op {
	case token.EQL:
		return e.valuesEqual(x, y)
	case token.NEQ:
		return ts.Not(e.valuesEqual(x, y))
	}
	e.unsupported("binop %s on %T,%T", op, x, y)
	return nil
}

func (e *Exec) shift(op token.Token, x, y *Term, signed bool, yt types.Type) Value {
	ts := e.ts
	w := x.W
	// bring the count to width w, saturating
	var cnt *Term
	var over *Term
	if y.W == w {
		cnt = y
		over = ts.Cmp(OpUle, ts.Const(w, uint64(w)), y)
	} else if y.W < w {
		cnt = ts.ZExt(y, w)
		over = ts.Cmp(OpUle, ts.Const(w, uint64(w)), cnt)
	} else {
		over = ts.Cmp(OpUle, ts.Const(y.W, uint64(w)), y)
		cnt = ts.Extract(w-1, 0, y)
	}
	switch op {
	case token.SHL:
		return ts.Ite(over, ts.Const(w, 0), ts.Bin(OpShl, x, cnt))
	default:
		if signed {
			big := ts.Bin(OpAShr, x, ts.Const(w, uint64(w-1)))
			return ts.Ite(over, big, ts.Bin(OpAShr, x, cnt))
		}
		return ts.Ite(over, ts.Const(w, 0), ts.Bin(OpLShr, x, cnt))
	}
}

func (e *Exec) bytesEq(a, b []*Term) *Term {
	if len(a) != len(b) {
		return e.ts.False
	}
	r := e.ts.True
	for i := range a {
		r = e.ts.And(r, e.ts.Eq(a[i], b[i]))
		if r.IsFalse() {
			return r
		}
	}
	return r
}

// bytesCompare returns a 64-bit term in {-1,0,1}.
func (e *Exec) bytesCompare(a, b []*Term) *Term {
	ts := e.ts
	n := len(a)
	if len(b) < n {
		n = len(b)
	}
	var tail *Term
	switch {
	case len(a) < len(b):
		tail = ts.Const(64, ^uint64(0))
	case len(a) > len(b):
		tail = ts.Const(64, 1)
	default:
		tail = ts.Const(64, 0)
	}
	res := tail
	for i := n - 1; i >= 0; i-- {
		lt := ts.Cmp(OpUlt, a[i], b[i])
		eq := ts.Eq(a[i], b[i])
		res = ts.Ite(eq, res, ts.Ite(lt, ts.Const(64, ^uint64(0)), ts.Const(64, 1)))
	}
	return res
}

// valuesEqual implements Go == on arbitrary comparable values; result is Bool term.
func (e *Exec) valuesEqual(x, y Value) *Term {
	ts := e.ts
	switch xv := x.(type) {
	case *Term:
		yv, ok := y.(*Term)
		if !ok {
			return ts.False
		}
		if xv.W != yv.W {
			return ts.False
		}
		return ts.Eq(xv, yv)
	case *StrV:
		yv, ok := y.(*StrV)
		if !ok {
			return ts.False
		}
		if xv.Concrete() && yv.Concrete() {
			return ts.Bool(xv.S == yv.S)
		}
		return e.bytesEq(e.strBytes(xv), e.strBytes(yv))
	case FloatV:
		yv, ok := y.(FloatV)
		if !ok || xv.Opaque || yv.Opaque {
			e.unsupported("float equality")
		}
		return ts.Bool(xv.F == yv.F)
	case NilPtr:
		return ts.Bool(isNilLike(y))
	case *Cell:
		if xv == nil {
			return ts.Bool(isNilLike(y))
		}
		yv, ok := y.(*Cell)
		return ts.Bool(ok && xv == yv)
	case IfaceV:
		switch yv := y.(type) {
		case IfaceV:
			if xv.T == nil || yv.T == nil {
				return ts.Bool(xv.T == nil && yv.T == nil)
			}
			if !types.Identical(xv.T, yv.T) {
				return ts.False
			}
			return e.valuesEqual(xv.V, yv.V)
		case NilPtr:
			return ts.Bool(xv.T == nil)
		}
		return ts.False
	case *StructV:
		yv, ok := y.(*StructV)
		if !ok || len(xv.F) != len(yv.F) {
			return ts.False
		}
		r := ts.True
		for i := range xv.F {
			r = ts.And(r, e.valuesEqual(xv.F[i], yv.F[i]))
		}
		return r
	case *ArrayV:
		yv, ok := y.(*ArrayV)
		if !ok || len(xv.E) != len(yv.E) {
			return ts.False
		}
		r := ts.True
		for i := range xv.E {
			r = ts.And(r, e.valuesEqual(xv.E[i], yv.E[i]))
		}
		return r
	case SliceV:
		// only comparison with nil is legal
		if isNilLike(y) {
			return ts.Bool(xv.Arr == nil)
		}
		if ys, ok := y.(SliceV); ok && ys.Arr == nil {
			return ts.Bool(xv.Arr == nil)
		}
	case *MapObj:
		if isNilLike(y) {
			return ts.Bool(xv == nil)
		}
		if ym, ok := y.(*MapObj); ok {
			return ts.Bool(xv == ym)
		}
	case *FuncV:
		if isNilLike(y) {
			return ts.Bool(xv == nil)
		}
		if yf, ok := y.(*FuncV); ok && (xv == nil || yf == nil) {
			return ts.Bool(xv == nil && yf == nil)
		}
	case *ChanObj:
		if isNilLike(y) {
			return ts.Bool(xv == nil)
		}
		if yc, ok := y.(*ChanObj); ok {
			return ts.Bool(xv == yc)
		}
	case *OpaqueV:
		if isNilLike(y) {
			return ts.False
		}
		if yo, ok := y.(*OpaqueV); ok {
			return ts.Bool(xv == yo)
		}
		return ts.False
	}
	if _, ok := y.(*OpaqueV); ok {
		return ts.False
	}
	e.unsupported("equality of %T and %T", x, y)
	return nil
}

func isNilLike(v Value) bool {
	switch x := v.(type) {
	case nil:
		return true
	case NilPtr:
		return true
	case *Cell:
		return x == nil
	case SliceV:
		return x.Arr == nil
	case *MapObj:
		return x == nil
	case *FuncV:
		return x == nil
	case *ChanObj:
		return x == nil
	case IfaceV:
		return x.T == nil
	}
	return false
}

func (e *Exec) convert(from, to types.Type, v Value) Value {
	ts := e.ts
	fu, tu := from.Underlying(), to.Underlying()
	// integer <-> integer
	if fw, fs, ok := intWidth(from); ok && fw > 0 {
		if tw, _, ok2 := intWidth(to); ok2 && tw > 0 {
			t := v.(*Term)
			if tw == fw {
				return t
			}
			if tw < fw {
				return ts.Extract(tw-1, 0, t)
			}
			if fs {
				return ts.SExt(t, tw)
			}
			return ts.ZExt(t, tw)
		}
		if isFloat(to) {
			t := v.(*Term)
			if t.IsConst() {
				if fs {
					return FloatV{F: float64(t.SInt())}
				}
				return FloatV{F: float64(t.K)}
			}
			return FloatV{Opaque: true}
		}
		if isString(to) {
			t := v.(*Term)
			if t.IsConst() {
				return &StrV{S: string(rune(t.SInt()))}
			}
			e.unsupported("string(symbolic rune)")
		}
		if b, ok := tu.(*types.Basic); ok && b.Kind() == types.UnsafePointer {
			return v
		}
	}
	if isFloat(from) {
		fv := v.(FloatV)
		if isFloat(to) {
			if b := tu.(*types.Basic); b.Kind() == types.Float32 && !fv.Opaque {
				return FloatV{F: float64(float32(fv.F))}
			}
			return fv
		}
		if tw, tsig, ok := intWidth(to); ok && tw > 0 {
			if fv.Opaque {
				e.unsupported("int(opaque float)")
			}
			if tsig {
				f := fv.F
				if math.IsNaN(f) || f >= 9.3e18 || f <= -9.3e18 {
					return ts.Const(tw, 1<<63)
				}
				return ts.Const(tw, uint64(int64(f)))
			}
			return ts.Const(tw, uint64(fv.F))
		}
	}
	if isString(from) {
		s := v.(*StrV)
		if sl, ok := tu.(*types.Slice); ok {
			if isByteType(sl.Elem()) {
				return e.newByteSlice(e.strBytes(s), s.Len())
			}
			e.unsupported("string to []rune")
		}
		if isString(to) {
			return v
		}
	}
	if sl, ok := fu.(*types.Slice); ok && isString(to) {
		if isByteType(sl.Elem()) {
			return e.mkStr(e.sliceBytes(v.(SliceV)))
		}
		e.unsupported("[]rune to string")
	}
	// pointer <-> unsafe.Pointer, same-kind conversions
	switch tu.(type) {
	case *types.Pointer, *types.Slice, *types.Struct, *types.Map, *types.Chan, *types.Signature:
		return v
	}
	if b, ok := tu.(*types.Basic); ok && b.Kind() == types.UnsafePointer {
		return v
	}
	if _, ok := tu.(*types.Interface); ok {
		return v
	}
	e.unsupported("convert %s -> %s", from, to)
	return nil
}

// ---------- builtins ----------

func (e *Exec) builtin(fr *frame, b *ssa.Builtin, cc *ssa.CallCommon, args []Value) Value {
	ts := e.ts
	switch b.Name() {
	case "len":
		switch x := args[0].(type) {
		case SliceV:
			return ts.Const(64, uint64(x.Len))
		case *StrV:
			return ts.Const(64, uint64(x.Len()))
		case *MapObj:
			if x == nil {
				return ts.Const(64, 0)
			}
			return ts.Const(64, uint64(len(x.Entries)))
		case *ArrayV:
			return ts.Const(64, uint64(len(x.E)))
		case *Cell:
			if x != nil && x.Arr != nil {
				return ts.Const(64, uint64(x.Arr.N))
			}
		case *ChanObj:
			if x == nil {
				return ts.Const(64, 0)
			}
			return ts.Const(64, uint64(len(x.Buf)))
		case *OpaqueV:
			return ts.Const(64, 0)
		}
	case "cap":
		switch x := args[0].(type) {
		case SliceV:
			return ts.Const(64, uint64(x.Cap))
		case *Cell:
			if x != nil && x.Arr != nil {
				return ts.Const(64, uint64(x.Arr.N))
			}
		case *ChanObj:
			if x == nil {
				return ts.Const(64, 0)
			}
			return ts.Const(64, uint64(x.Cap))
		}
	case "append":
		return e.doAppend(args[0], args[1], cc.Args[0].Type())
	case "copy":
		return e.doCopy(args[0], args[1])
	case "delete":
		if m, ok := args[0].(*MapObj); ok {
			e.mapDelete(m, args[1])
			return nil
		}
		if _, ok := args[0].(*OpaqueV); ok {
			return nil
		}
	case "print", "println":
		return nil
	case "recover":
		return IfaceV{}
	case "min", "max":
		t := cc.Args[0].Type()
		_, signed, _ := intWidth(t)
		res := args[0].(*Term)
		for _, a := range args[1:] {
			at := a.(*Term)
			var lt *Term
			if signed {
				lt = ts.Cmp(OpSlt, at, res)
			} else {
				lt = ts.Cmp(OpUlt, at, res)
			}
			if b.Name() == "max" {
				lt = ts.Not(ts.Or(lt, ts.Eq(at, res)))
			}
			res = ts.Ite(lt, at, res)
		}
		return res
	case "close":
		e.chanClose(args[0])
		return nil
	case "clear":
		if m, ok := args[0].(*MapObj); ok && m != nil {
			m.Entries = nil
			return nil
		}
	case "ssa:wrapnilchk":
		if isNilPtr(args[0]) {
			e.goPanic("nil pointer in wrapper")
		}
		return args[0]
	}
	e.unsupported("builtin %s on %T", b.Name(), args[0])
	return nil
}

func (e *Exec) doAppend(dst, src Value, dstType types.Type) Value {
	d := dst.(SliceV)
	var n int
	var srcS SliceV
	var srcBytes []*Term
	switch s := src.(type) {
	case SliceV:
		srcS = s
		n = s.Len
	case *StrV:
		srcBytes = e.strBytes(s)
		n = len(srcBytes)
	default:
		e.unsupported("append of %T", src)
	}
	if n == 0 {
		return d
	}
	et := dstType.Underlying().(*types.Slice).Elem()
	res := d
	if d.Len+n > d.Cap || d.Arr == nil {
		// grow: Go's growth is implementation-defined; we double
		nc := d.Cap * 2
		if nc < d.Len+n {
			nc = d.Len + n
		}
		if nc < 8 && isByteType(et) {
			nc = 8
		}
		arr := e.newArray(et, nc)
		for i := 0; i < d.Len; i++ {
			if c := d.Arr.peek(d.Off + i); c != nil {
				e.store(e.at(arr, i), e.load(c))
			}
		}
		res = SliceV{Arr: arr, Off: 0, Len: d.Len, Cap: nc}
	}
	for i := 0; i < n; i++ {
		dc := e.at(res.Arr, res.Off+res.Len+i)
		if srcBytes != nil {
			dc.V = srcBytes[i]
		} else if c := srcS.Arr.peek(srcS.Off + i); c != nil {
			e.store(dc, e.load(c))
		} else {
			e.store(dc, e.zero(et))
		}
	}
	res.Len += n
	return res
}

func (e *Exec) doCopy(dst, src Value) Value {
	d := dst.(SliceV)
	var n int
	switch s := src.(type) {
	case SliceV:
		n = s.Len
		if d.Len < n {
			n = d.Len
		}
		if n == 0 {
			break
		}
		// read first to allow overlap
		vals := make([]Value, n)
		for i := 0; i < n; i++ {
			if c := s.Arr.peek(s.Off + i); c != nil {
				vals[i] = e.load(c)
			} else {
				vals[i] = e.zero(s.Arr.Elem)
			}
		}
		for i := 0; i < n; i++ {
			e.store(e.at(d.Arr, d.Off+i), vals[i])
		}
	case *StrV:
		bs := e.strBytes(s)
		n = len(bs)
		if d.Len < n {
			n = d.Len
		}
		for i := 0; i < n; i++ {
			e.at(d.Arr, d.Off+i).V = bs[i]
		}
	default:
		e.unsupported("copy from %T", src)
	}
	return e.ts.Const(64, uint64(n))
}

var _ = fmt.Sprintf
