package main

import (
	"fmt"
	"go/types"
	"strings"

	"golang.org/x/tools/go/ssa"
)

type actKind int

const (
	actExec actKind = iota
	actIntrinsic
	actRedirect
	actStub
	actUnsupported
)

type fnAction struct {
	kind      actKind
	name      string
	intrinsic func(e *Exec, fn *ssa.Function, args []Value) Value
	target    *ssa.Function
	// condExec, if set and true for the arguments, executes the real body instead of the intrinsic
	condExec func(args []Value) bool
}

// condIntrinsics: summaries that only stand in for the real code when an argument is
// outside what the engine computes exactly. RetentionDuration is float32 arithmetic: with an
// opaque (symbolic) retention_days it is replaced by an arbitrary non-negative duration,
// with a concrete retention_days the real body runs on the concrete float.
var condIntrinsics = map[string]func(args []Value) bool{
	"(" + repoMod + "/config.Sweeper).RetentionDuration": func(a []Value) bool {
		if sv, ok := a[0].(*StructV); ok {
			for _, f := range sv.F {
				if fv, ok := f.(FloatV); ok {
					return !fv.Opaque
				}
			}
		}
		return false
	},
}

const repoMod = "github.com/PowerDNS/lightningstream"
const zzPath = repoMod + "/internal/zzverif"

// packages whose functions are executed from their real SSA
var execPrefixes = []string{
	repoMod,
	"github.com/CrowdStrike/csproto",
	"github.com/PowerDNS/lmdb-go/lmdbscan",
	"github.com/samber/lo",
	"github.com/PowerDNS/simpleblob",
	"encoding/binary",
	"bytes",
	"strings",
	"strconv",
	"sort",
	"slices",
	"maps",
	"errors",
	"io",
	"math/bits",
	"unicode/utf8",
	"unicode",
	"cmp",
	"iter",
	"internal/stringslite",
	"internal/byteorder",
	"internal/itoa",
	"container/list",
	"go.uber.org/atomic",
}

// packages that are stubbed wholesale (no-op / opaque results)
var stubPrefixes = []string{
	"github.com/sirupsen/logrus",
	"github.com/prometheus/",
	repoMod + "/status",
	repoMod + "/lmdbenv/stats",
	repoMod + "/utils/climit.metric",
	"log",
	"os",
	"regexp",
	"runtime",
	"encoding/hex",
	"crypto/",
	"github.com/c2h5oh/datasize",
	"github.com/gogo/protobuf/proto",
	"github.com/golang/protobuf",
	"google.golang.org/protobuf",
	"sync/atomic",
	"context",
	"reflect",
	"internal/reflectlite",
	"text/",
	"unique",
	"weak",
	"internal/reflectlite",
	"internal/godebug",
	"internal/poll",
	"syscall",
	"math/rand",
}

// package inits that are run (concretely) on first use of one of their globals
var initAllowed = []string{
	repoMod + "/lmdbenv/header",
	repoMod + "/lmdbenv/strategy",
	repoMod + "/snapshot",
	repoMod + "/syncer",
	repoMod + "/utils",
	repoMod + "/config",
	repoMod + "/lmdbenv",
	repoMod + "/lmdbenv/dbiflags",
	repoMod + "/lmdbenv/limitscanner",
	repoMod + "/syncer/",
	repoMod + "/internal/zzverif",
	"github.com/CrowdStrike/csproto",
	"github.com/PowerDNS/lmdb-go/lmdb",
	"github.com/PowerDNS/lmdb-go/lmdbscan",
	"io",
	"errors",
	"unicode/utf8",
	"math/bits",
	"encoding/binary",
	"bytes",
	"strings",
	"github.com/PowerDNS/simpleblob",
}

func hasAnyPrefix(s string, ps []string) bool {
	for _, p := range ps {
		if s == p || strings.HasPrefix(s, p+"/") || (strings.HasSuffix(p, "/") && strings.HasPrefix(s, p)) || (strings.HasSuffix(p, ".metric") && false) {
			return true
		}
	}
	return false
}

func (e *Exec) pkgInitAllowed(path string) bool {
	return hasAnyPrefix(path, initAllowed)
}

var globalOverrides = map[string]func(e *Exec, c *Cell){
	repoMod + "/lmdbenv/strategy.isLittleEndian": func(e *Exec, c *Cell) { c.V = e.ts.True },
	"context.Canceled":                           func(e *Exec, c *Cell) { c.V = e.newStubError("context canceled", nil) },
	"context.DeadlineExceeded":                   func(e *Exec, c *Cell) { c.V = e.newStubError("context deadline exceeded", nil) },
}

func fnPkgPath(fn *ssa.Function) string {
	if fn.Pkg != nil {
		return fn.Pkg.Pkg.Path()
	}
	if o := fn.Origin(); o != nil && o.Pkg != nil {
		return o.Pkg.Pkg.Path()
	}
	if fn.Signature.Recv() != nil {
		t := fn.Signature.Recv().Type()
		if p, ok := t.(*types.Pointer); ok {
			t = p.Elem()
		}
		if n, ok := t.(*types.Named); ok && n.Obj().Pkg() != nil {
			return n.Obj().Pkg().Path()
		}
	}
	if fn.Object() != nil && fn.Object().Pkg() != nil {
		return fn.Object().Pkg().Path()
	}
	return ""
}

// fnKey is the name used in the intrinsic/redirect tables.
func fnKey(fn *ssa.Function) string {
	if o := fn.Origin(); o != nil {
		return o.String()
	}
	return fn.String()
}

func (e *Exec) action(fn *ssa.Function) *fnAction {
	if a, ok := e.actions[fn]; ok {
		return a
	}
	a := e.decideAction(fn)
	e.actions[fn] = a
	return a
}

func (e *Exec) decideAction(fn *ssa.Function) *fnAction {
	key := fnKey(fn)
	if e.cfg.ThreadMode {
		if in, ok := threadIntrinsics[key]; ok {
			return &fnAction{kind: actIntrinsic, name: key, intrinsic: in}
		}
	}
	if in, ok := intrinsics[key]; ok {
		return &fnAction{kind: actIntrinsic, name: key, intrinsic: in, condExec: condIntrinsics[key]}
	}
	if fnPkgPath(fn) == "sync/atomic" {
		if a := atomicAction(fn); a != nil {
			return a
		}
	}
	if tgt, ok := e.redirects()[key]; ok {
		return &fnAction{kind: actRedirect, name: key, target: tgt}
	}
	if stubFuncs[key] {
		return &fnAction{kind: actStub, name: key}
	}
	if fn.Synthetic != "" && fn.Blocks != nil && !strings.HasPrefix(fn.Synthetic, "package initializer") && !strings.HasPrefix(fn.Synthetic, "instance of") {
		// wrappers, bound methods, thunks, instantiations: execute
		return &fnAction{kind: actExec, name: key}
	}
	pp := fnPkgPath(fn)
	if strings.HasPrefix(fn.Synthetic, "package initializer") {
		if e.pkgInitAllowed(pp) && fn.Blocks != nil {
			return &fnAction{kind: actExec, name: key}
		}
		return &fnAction{kind: actStub, name: key}
	}
	if pp == lmdbPkg {
		if lmdbExec[key] && fn.Blocks != nil {
			return &fnAction{kind: actExec, name: key}
		}
		if strings.HasSuffix(key, ".Error") {
			return &fnAction{kind: actStub, name: key}
		}
		return &fnAction{kind: actUnsupported, name: key}
	}
	if hasAnyPrefix(pp, e.extraStub()) {
		return &fnAction{kind: actStub, name: key}
	}
	if hasAnyPrefix(pp, execPrefixes) && !hasAnyPrefix(pp, stubPrefixes) {
		if fn.Blocks == nil {
			return &fnAction{kind: actUnsupported, name: key}
		}
		return &fnAction{kind: actExec, name: key}
	}
	if hasAnyPrefix(pp, stubPrefixes) {
		return &fnAction{kind: actStub, name: key}
	}
	if fn.Parent() != nil {
		// anonymous function: follows its parent
		return e.action(fn.Parent())
	}
	return &fnAction{kind: actUnsupported, name: key}
}

func (e *Exec) extraStub() []string {
	return nil
}

var stubFuncs = map[string]bool{
	"fmt.Println": true, "fmt.Printf": true, "fmt.Fprintf": true, "fmt.Print": true, "fmt.Fprintln": true, "fmt.Fprint": true,
	"(*sync.Mutex).Lock": true, "(*sync.Mutex).Unlock": true,
	"(*sync.RWMutex).Lock": true, "(*sync.RWMutex).Unlock": true, "(*sync.RWMutex).RLock": true, "(*sync.RWMutex).RUnlock": true,
	"(*sync.WaitGroup).Add": true, "(*sync.WaitGroup).Done": true, "(*sync.WaitGroup).Wait": true,
	"time.Sleep":                                             true,
	repoMod + "/snapshot.ShortHash":                          true,
	"(" + repoMod + "/snapshot.NameInfo).ShortHash":          true,
	repoMod + "/lmdbenv/strategy.init#1":                     true,
	repoMod + "/utils.GC":                                    true,
	repoMod + "/utils.DisplayASCII":                          true,
	"(*" + repoMod + "/syncer.NativeIterator).logDebugValue": true,
}

// redirect table: real callee -> model function (resolved lazily by name)
var redirectNames = map[string]string{}

func (e *Exec) redirects() map[string]*ssa.Function {
	if e.envState == nil {
		return nil
	}
	return resolvedRedirects
}

var resolvedRedirects = map[string]*ssa.Function{}

// resolveRedirects looks up model functions "pkgpath.Func" in the program.
func resolveRedirects(prog *ssa.Program, table map[string]string) error {
	for from, to := range table {
		i := strings.LastIndexByte(to, '.')
		pkgPath, name := to[:i], to[i+1:]
		var pkg *ssa.Package
		for _, p := range prog.AllPackages() {
			if p.Pkg.Path() == pkgPath {
				pkg = p
				break
			}
		}
		if pkg == nil {
			continue // package not part of this load: the redirect cannot be hit either
		}
		f := pkg.Func(name)
		if f == nil {
			return fmt.Errorf("redirect target %s not found", to)
		}
		resolvedRedirects[from] = f
	}
	return nil
}

// ---------- thread-mode placeholders (sequential mode) ----------

func (e *Exec) goStmt(fr *frame, ins *ssa.Go) {
	if e.cfg.ThreadMode {
		e.threadGo(fr, ins)
		return
	}
	e.StubsHit["go-statement-not-run"]++
}

func (e *Exec) chanSend(ch Value, v Value) {
	if e.cfg.ThreadMode {
		e.threadSend(ch, v)
		return
	}
	c, ok := ch.(*ChanObj)
	if !ok {
		if _, isO := ch.(*OpaqueV); isO {
			return
		}
		e.unsupported("send on %T", ch)
	}
	if c == nil {
		e.abort("deadlock", "send on nil channel")
	}
	if c.Closed {
		e.goPanic("send on closed channel")
	}
	if len(c.Buf) < c.Cap {
		c.Buf = append(c.Buf, v)
		return
	}
	e.check(e.ts.False, "deadlock:send-blocks-forever@"+e.whereShort())
	e.abort("deadlock", "send blocks in sequential mode")
}

func (e *Exec) chanRecv(ch Value, commaOk bool, t types.Type) Value {
	if e.cfg.ThreadMode {
		return e.threadRecv(ch, commaOk, t)
	}
	c, ok := ch.(*ChanObj)
	if !ok {
		if _, isO := ch.(*OpaqueV); isO {
			e.abort("blocked", "receive on opaque channel")
		}
		e.unsupported("recv on %T", ch)
	}
	et := t
	if commaOk {
		et = t.(*types.Tuple).At(0).Type()
	}
	if c != nil && len(c.Buf) > 0 {
		v := c.Buf[0]
		c.Buf = c.Buf[1:]
		if commaOk {
			return TupleV{v, e.ts.True}
		}
		return v
	}
	if c != nil && c.Closed {
		if commaOk {
			return TupleV{e.zero(et), e.ts.False}
		}
		return e.zero(et)
	}
	e.check(e.ts.False, "deadlock:recv-blocks-forever@"+e.whereShort())
	e.abort("deadlock", "receive blocks in sequential mode")
	return nil
}

func (e *Exec) chanClose(ch Value) {
	c, ok := ch.(*ChanObj)
	if !ok {
		if _, isO := ch.(*OpaqueV); isO {
			return
		}
		e.unsupported("close of %T", ch)
	}
	if c == nil {
		e.goPanic("close of nil channel")
	}
	if c.Closed {
		e.goPanic("close of closed channel")
	}
	c.Closed = true
	if e.cfg.ThreadMode {
		e.threadWake()
	}
}

func (e *Exec) selectStmt(fr *frame, ins *ssa.Select) Value {
	if e.cfg.ThreadMode {
		return e.threadSelect(fr, ins)
	}
	// sequential: pick the first ready case, else default, else blocked
	n := len(ins.States)
	tt := ins.Type().(*types.Tuple)
	mk := func(idx int, recvOk bool, recvVals map[int]Value) Value {
		tv := make(TupleV, tt.Len())
		tv[0] = e.ts.Const(64, uint64(int64(idx)))
		tv[1] = e.ts.Bool(recvOk)
		k := 2
		for i, st := range ins.States {
			if st.Dir == types.RecvOnly {
				if v, ok := recvVals[i]; ok {
					tv[k] = v
				} else {
					tv[k] = e.zero(tt.At(k).Type())
				}
				k++
			}
		}
		return tv
	}
	for i := 0; i < n; i++ {
		st := ins.States[i]
		chv := e.get(fr, st.Chan)
		c, ok := chv.(*ChanObj)
		if !ok || c == nil {
			continue
		}
		if st.Dir == types.RecvOnly {
			if len(c.Buf) > 0 {
				v := c.Buf[0]
				c.Buf = c.Buf[1:]
				return mk(i, true, map[int]Value{i: v})
			}
			if c.Closed {
				return mk(i, false, nil)
			}
		} else {
			if c.Closed {
				e.goPanic("send on closed channel")
			}
			if len(c.Buf) < c.Cap {
				c.Buf = append(c.Buf, e.get(fr, st.Send))
				return mk(i, false, nil)
			}
		}
	}
	if !ins.Blocking {
		return mk(-1, false, nil)
	}
	e.abort("blocked", "select blocks in sequential mode")
	return nil
}
