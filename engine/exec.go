package main

import (
	"fmt"
	"go/constant"
	"go/token"
	"go/types"
	"sort"
	"strings"
	"time"

	"golang.org/x/tools/go/ssa"
)

// ---------- path control ----------

type alt struct {
	val  uint64
	cons *Term
}

type decision struct {
	level int // solver level before this decision's constraint
	alts  []alt
	cur   int
	what  string
}

type pathEnd struct {
	kind string // "done", "infeasible", "panic", "budget", "unsupported", "exhausted"
	msg  string
}

type Violation struct {
	Label   string            `json:"label"`
	Harness string            `json:"harness"`
	Values  map[string]uint64 `json:"values"`
	Order   []string          `json:"order"`
	Where   string            `json:"where"`
	Count   int               `json:"count"`
	Path    []uint64          `json:"path"`
	Trail   []string          `json:"trail"`
}

type fnInfo struct {
	idx map[ssa.Value]int
	n   int
}

type deferred struct {
	fn   Value
	args []Value
	call *ssa.CallCommon
}

type frame struct {
	fn     *ssa.Function
	info   *fnInfo
	regs   []Value
	defers []deferred
	visits []int
	caller *frame
	pos    token.Pos
}

type nondetRec struct {
	Name string
	T    *Term
	Val  uint64 // for choices
	IsCh bool
}

type Config struct {
	MaxUnwind   int
	MaxSteps    int
	MaxPaths    int
	MaxEnum     int
	PanicsOK    bool
	Shard       int
	NShards     int
	Trace       bool
	StubPkgs    map[string]bool
	ExecPkgs    []string
	ThreadMode  bool
	MaxSwitches int
	Seed        uint64
	// StopAfterViolation: once a violation is recorded, explore at most this many further
	// paths (the verdict is a violation anyway; a broken tree can explode the path space)
	StopAfterViolation int
	MaxWallS           int
	Params             map[string]int
}

type Exec struct {
	prog *ssa.Program
	ts   *TermStore
	sol  *Solver
	cfg  Config

	harness string

	// per path
	globals     map[*ssa.Global]*Cell
	initDone    map[*ssa.Package]bool
	cellID      int
	trail       []*decision
	pos         int
	level       int
	fresh       bool // fresh part reached (not replaying)
	nondets     []nondetRec
	nondetCount map[string]int
	steps       int
	checkSeq    int
	depth       int
	cur         *frame
	notes       []string
	reached     map[string]bool
	envState    map[string]Value // engine-side per-path scratch for intrinsics

	// accumulated
	Paths        int
	PathsByKind  map[string]int
	Violations   map[string]*Violation
	VioOrder     []string
	Obligations  int
	Discharged   int
	ConcreteObl  int
	FeasQueries  int
	Unknowns     int
	FuncsEntered map[string]int
	StubsHit     map[string]int
	RedirectsHit map[string]int
	ReachedAll   map[string]bool
	Unsupported  map[string]int
	Samples      []map[string]interface{}
	MaxDepthSeen int
	TotalSteps   int64
	assertLabels map[string]int

	firstVioPath int
	started      time.Time
	Records      map[string]string
	fmtCache     map[string]*Term
	fnInfos      map[*ssa.Function]*fnInfo
	actions      map[*ssa.Function]*fnAction
	typeByNm     map[string]types.Type
	threads      *threadState
}

func NewExec(prog *ssa.Program, sol *Solver, ts *TermStore, cfg Config) *Exec {
	return &Exec{
		prog: prog, ts: ts, sol: sol, cfg: cfg,
		PathsByKind:  map[string]int{},
		Violations:   map[string]*Violation{},
		FuncsEntered: map[string]int{},
		StubsHit:     map[string]int{},
		RedirectsHit: map[string]int{},
		ReachedAll:   map[string]bool{},
		Unsupported:  map[string]int{},
		fnInfos:      map[*ssa.Function]*fnInfo{},
		actions:      map[*ssa.Function]*fnAction{},
		assertLabels: map[string]int{},
	}
}

func (e *Exec) abort(kind, msg string) {
	panic(pathEnd{kind: kind, msg: msg})
}

func (e *Exec) unsupported(format string, a ...interface{}) {
	msg := fmt.Sprintf(format, a...)
	if e.cur != nil {
		msg += " @ " + e.where()
	}
	e.Unsupported[msg]++
	e.abort("unsupported", msg)
}

func (e *Exec) where() string {
	var parts []string
	n := 0
	for f := e.cur; f != nil && n < 6; f = f.caller {
		p := e.prog.Fset.Position(f.pos)
		parts = append(parts, fmt.Sprintf("%s(%s:%d)", f.fn.Name(), shortFile(p.Filename), p.Line))
		n++
	}
	return strings.Join(parts, " < ")
}

func shortFile(f string) string {
	if i := strings.LastIndexByte(f, '/'); i >= 0 {
		return f[i+1:]
	}
	return f
}

// RunHarness explores all paths of fn.
func (e *Exec) RunHarness(fn *ssa.Function) {
	e.started = time.Now()
	e.harness = fn.Name()
	e.trail = nil
	e.sol.PopTo(0)
	for {
		e.runPath(fn)
		// backtrack
		for len(e.trail) > 0 {
			d := e.trail[len(e.trail)-1]
			if d.cur+1 < len(d.alts) {
				break
			}
			e.trail = e.trail[:len(e.trail)-1]
		}
		if len(e.trail) == 0 {
			break
		}
		d := e.trail[len(e.trail)-1]
		d.cur++
		e.sol.PopTo(d.level)
		if e.cfg.MaxPaths > 0 && e.Paths >= e.cfg.MaxPaths {
			e.PathsByKind["path-budget"]++
			e.Unknowns++
			break
		}
		if e.cfg.StopAfterViolation > 0 && len(e.Violations) > 0 {
			if e.firstVioPath == 0 {
				e.firstVioPath = e.Paths
			}
			if e.Paths-e.firstVioPath >= e.cfg.StopAfterViolation {
				e.PathsByKind["stopped-after-violation"]++
				break
			}
		}
		if e.cfg.MaxWallS > 0 && time.Since(e.started) > time.Duration(e.cfg.MaxWallS)*time.Second {
			e.PathsByKind["time-budget"]++
			e.Unknowns++
			break
		}
	}
	e.sol.PopTo(0)
}

func (e *Exec) runPath(fn *ssa.Function) {
	e.globals = map[*ssa.Global]*Cell{}
	e.initDone = map[*ssa.Package]bool{}
	e.cellID = 0
	e.pos = 0
	e.level = 0
	e.fresh = len(e.trail) == 0
	e.nondets = e.nondets[:0]
	e.nondetCount = map[string]int{}
	e.steps = 0
	e.checkSeq = 0
	e.depth = 0
	e.cur = nil
	e.notes = nil
	e.reached = map[string]bool{}
	e.envState = map[string]Value{}
	e.threads = nil
	kind := "done"
	msg := ""
	func() {
		defer e.killThreads()
		defer func() {
			if r := recover(); r != nil {
				if pe, ok := r.(pathEnd); ok {
					kind, msg = pe.kind, pe.msg
					return
				}
				panic(r)
			}
		}()
		e.call(fn, nil, nil)
	}()
	e.Paths++
	e.PathsByKind[kind]++
	e.TotalSteps += int64(e.steps)
	if kind == "unsupported" || kind == "budget" {
		e.Unknowns++
	}
	if e.cfg.Trace {
		fmt.Printf("path %d: %s %s steps=%d trail=%d\n", e.Paths, kind, msg, e.steps, len(e.trail))
	}
	if len(e.Samples) < 4 && kind == "done" {
		var dv []uint64
		for _, d := range e.trail {
			dv = append(dv, d.alts[d.cur].val)
		}
		e.Samples = append(e.Samples, map[string]interface{}{
			"harness": e.harness, "decisions": dv, "steps": e.steps, "end": kind, "notes": e.notes,
		})
	}
}

// choose picks among alternatives; cons(i) is the constraint of alternative i.
// Infeasible alternatives are pruned eagerly.
func (e *Exec) choose(what string, vals []uint64, cons []*Term) uint64 {
	return e.choose2(what, vals, cons, false, -1)
}

// choose2: exhaustive means the alternatives cover the whole path condition
// (so if all others are infeasible the remaining one is feasible without a
// query); known is the index of an alternative already known feasible (-1: none).
func (e *Exec) choose2(what string, vals []uint64, cons []*Term, exhaustive bool, known int) uint64 {
	if e.pos < len(e.trail) {
		d := e.trail[e.pos]
		last := e.pos == len(e.trail)-1
		e.pos++
		if last && !e.fresh {
			// fresh alternative of the flipped decision: assert its constraint
			e.fresh = true
			e.sol.PopTo(d.level)
			e.sol.Push()
			e.sol.Assert(d.alts[d.cur].cons)
		}
		e.level = d.level + 1
		return d.alts[d.cur].val
	}
	if !e.fresh {
		panic("internal: new decision while replaying")
	}
	d := &decision{level: e.level, what: what}
	nUnsat := 0
	for i := range vals {
		c := cons[i]
		if c.IsFalse() {
			nUnsat++
			continue
		}
		if c.IsTrue() {
			d.alts = append(d.alts, alt{vals[i], c})
			continue
		}
		if i == known || (exhaustive && i == len(vals)-1 && len(d.alts) == 0) {
			d.alts = append(d.alts, alt{vals[i], c})
			continue
		}
		e.sol.Push()
		e.sol.Assert(c)
		r := e.sol.Check()
		e.sol.Pop(1)
		e.FeasQueries++
		switch r {
		case Sat:
			d.alts = append(d.alts, alt{vals[i], c})
		case Unknown:
			e.Unknowns++
			d.alts = append(d.alts, alt{vals[i], c})
		default:
			nUnsat++
		}
	}
	if len(d.alts) == 0 {
		e.abort("infeasible", "no feasible alternative: "+what)
	}
	e.trail = append(e.trail, d)
	e.pos++
	e.sol.Push()
	e.sol.Assert(d.alts[0].cons)
	e.level = d.level + 1
	return d.alts[0].val
}

// branch decides a boolean condition.
func (e *Exec) branch(c *Term) bool {
	if c.IsConst() {
		return c.K != 0
	}
	v := e.choose2("if", []uint64{1, 0}, []*Term{c, e.ts.Not(c)}, true, -1)
	return v == 1
}

// assume adds c to the path condition.
func (e *Exec) assume(c *Term) {
	if c.IsTrue() {
		return
	}
	if c.IsFalse() {
		e.abort("infeasible", "assume false")
	}
	v := e.choose("assume", []uint64{1}, []*Term{c})
	_ = v
}

// concretize enumerates the feasible values of t.
func (e *Exec) concretize(t *Term, what string) uint64 {
	if t.IsConst() {
		return t.K
	}
	if e.pos < len(e.trail) {
		return e.choose(what, nil, nil)
	}
	var vals []uint64
	var cons []*Term
	e.sol.Push()
	limit := e.cfg.MaxEnum
	if limit == 0 {
		limit = 600
	}
	for {
		r := e.sol.Check()
		e.FeasQueries++
		if r == Unsat {
			break
		}
		if r == Unknown {
			e.Unknowns++
			e.sol.Pop(1)
			e.abort("budget", "unknown during concretisation of "+what)
		}
		// read value
		ref := e.sol.em.ref(t)
		e.sol.flushDefs()
		e.sol.send("(get-value (" + ref + "))\n")
		txt := e.sol.readSexp()
		v := parseOneValue(txt)
		vals = append(vals, v)
		k := e.ts.Const(t.W, v)
		cons = append(cons, e.ts.Eq(t, k))
		e.sol.Assert(e.ts.Not(e.ts.Eq(t, k)))
		if len(vals) > limit {
			e.sol.Pop(1)
			e.abort("budget", fmt.Sprintf("more than %d values for %s", limit, what))
		}
	}
	e.sol.Pop(1)
	if len(vals) == 0 {
		e.abort("infeasible", "no value for "+what)
	}
	// deterministic order
	idx := make([]int, len(vals))
	for i := range idx {
		idx[i] = i
	}
	sort.Slice(idx, func(a, b int) bool { return vals[idx[a]] < vals[idx[b]] })
	sv := make([]uint64, len(vals))
	sc := make([]*Term, len(vals))
	for i, j := range idx {
		sv[i], sc[i] = vals[j], cons[j]
	}
	// all alternatives are known feasible: bypass re-checking
	d := &decision{level: e.level, what: what}
	for i := range sv {
		d.alts = append(d.alts, alt{sv[i], sc[i]})
	}
	e.trail = append(e.trail, d)
	e.pos++
	e.sol.Push()
	e.sol.Assert(d.alts[0].cons)
	e.level = d.level + 1
	return d.alts[0].val
}

func parseOneValue(txt string) uint64 {
	// ((expr value))
	txt = strings.TrimSpace(txt)
	txt = strings.TrimSuffix(txt, "))")
	i := strings.LastIndexAny(txt, " \n")
	tok := txt[i+1:]
	if strings.HasPrefix(tok, "#x") {
		var v uint64
		fmt.Sscanf(tok[2:], "%x", &v)
		return v
	}
	if strings.HasPrefix(tok, "#b") {
		var v uint64
		fmt.Sscanf(tok[2:], "%b", &v)
		return v
	}
	if tok == "true" {
		return 1
	}
	if tok == "false" {
		return 0
	}
	panic("cannot parse value: " + txt)
}

// check is an assertion: c must hold on every value of the current path.
func (e *Exec) check(c *Term, label string) { e.check2(c, label, true) }

// check2: assumeAfter says whether a violated check restricts the rest of the path to the
// values on which it holds (implicit panics: yes, the program would not continue; harness
// assertions: no, so that later assertions are judged independently of earlier ones).
func (e *Exec) check2(c *Term, label string, assumeAfter bool) {
	e.checkSeq++
	aav := fmt.Sprintf("assume-after-violation:%d", e.checkSeq)
	if !e.fresh {
		// replayed prefix: already checked on an earlier run. An assumption was only
		// recorded if the check failed then (the next trail entry says so).
		if assumeAfter && e.pos < len(e.trail) && e.trail[e.pos].what == aav && !c.IsFalse() {
			e.choose(aav, nil, nil)
		}
		return
	}
	e.assertLabels[label]++
	if c.IsTrue() {
		e.ConcreteObl++
		return
	}
	e.Obligations++
	var r SatResult
	if c.IsFalse() {
		// the path condition is known satisfiable: certain violation on this path.
		// The path continues (without assuming false) so later assertions are still checked.
		if e.Violations[label] == nil {
			// a model of exactly the current path condition is needed
			if r := e.sol.Check(); r != Sat {
				e.Unknowns++
				return
			}
		}
		e.recordViolation(label)
		return
	} else {
		e.sol.Push()
		e.sol.Assert(e.ts.Not(c))
		r = e.sol.Check()
		if r == Sat {
			e.recordViolation(label)
		}
		e.sol.Pop(1)
	}
	switch r {
	case Unsat:
		e.Discharged++
		// c is implied by the path condition: nothing to add
		return
	case Unknown:
		e.Unknowns++
	}
	if !assumeAfter {
		return
	}
	if c.IsFalse() {
		e.abort("infeasible", "assume false")
	}
	e.choose(aav, []uint64{1}, []*Term{c})
}

func (e *Exec) recordViolation(label string) {
	v := e.Violations[label]
	if v != nil {
		v.Count++
		return
	}
	var vars []*Term
	for _, n := range e.nondets {
		if n.T != nil && n.T.Op == OpVar {
			vars = append(vars, n.T)
		}
	}
	m := e.sol.Values(vars)
	// Replay-friendly counterexample: natively the clock is the real one. Prefer a model whose
	// clock readings lie in a window starting now and whose other 64-bit inputs (data
	// timestamps) lie outside it, so that every comparison between a clock reading and a data
	// timestamp comes out natively as in the model. Only a preference: if it is not
	// satisfiable together with the path and the violated assertion, the first model is kept.
	if pm := e.replayFriendlyModel(vars); pm != nil {
		m = pm
	}
	vals := map[string]uint64{}
	var order []string
	for _, n := range e.nondets {
		if n.IsCh {
			vals[n.Name] = n.Val
		} else if n.T.Op == OpVar {
			vals[n.Name] = m[n.T.Name]
		} else {
			vals[n.Name] = n.T.K
		}
		order = append(order, n.Name)
	}
	var pv []uint64
	for i := 0; i < e.pos && i < len(e.trail); i++ {
		d := e.trail[i]
		pv = append(pv, d.alts[d.cur].val)
	}
	var tr []string
	for i := 0; i < e.pos && i < len(e.trail); i++ {
		d := e.trail[i]
		tr = append(tr, fmt.Sprintf("%s=%d/%d", d.what, d.alts[d.cur].val, len(d.alts)))
	}
	v = &Violation{Trail: tr, Label: label, Harness: e.harness, Values: vals, Order: order, Where: e.where(), Count: 1, Path: pv}
	e.Violations[label] = v
	e.VioOrder = append(e.VioOrder, label)
}

func (e *Exec) replayFriendlyModel(vars []*Term) map[string]uint64 {
	ts := e.ts
	t0 := uint64(time.Now().UnixNano())
	lo, hi := ts.Const(64, t0), ts.Const(64, t0+uint64(4*time.Hour))
	wlo, whi := ts.Const(64, t0-uint64(24*time.Hour)), ts.Const(64, t0+uint64(28*time.Hour))
	pref := ts.True
	nclk := 0
	for _, n := range e.nondets {
		if n.T == nil || n.T.Op != OpVar || n.T.W != 64 {
			continue
		}
		if strings.HasPrefix(n.Name, "now") {
			nclk++
			pref = ts.And(pref, ts.And(ts.Cmp(OpUle, lo, n.T), ts.Cmp(OpUle, n.T, hi)))
		} else {
			pref = ts.And(pref, ts.Or(ts.Cmp(OpUlt, n.T, wlo), ts.Cmp(OpUlt, whi, n.T)))
		}
	}
	if nclk == 0 {
		return nil
	}
	e.sol.Push()
	defer e.sol.Pop(1)
	e.sol.Assert(pref)
	if e.sol.Check() != Sat {
		return nil
	}
	return e.sol.Values(vars)
}

// goPanic handles a Go panic (explicit or implicit) that is certain on this path.
func (e *Exec) goPanic(kind string) {
	label := "panic:" + kind + "@" + e.whereShort()
	if !e.cfg.PanicsOK {
		e.check(e.ts.False, label)
	}
	e.abort("panic", label)
}

func (e *Exec) whereShort() string {
	if e.cur == nil {
		return "?"
	}
	f := e.cur
	// attribute to the innermost non-synthetic repository frame
	p := e.prog.Fset.Position(f.pos)
	return fmt.Sprintf("%s:%s:%d", f.fn.Name(), shortFile(p.Filename), p.Line)
}

// implicit check: cond must hold, else the program panics with kind.
func (e *Exec) require(cond *Term, kind string) {
	if cond.IsTrue() {
		return
	}
	label := "panic:" + kind + "@" + e.whereShort()
	if e.cfg.PanicsOK {
		if cond.IsFalse() {
			e.abort("panic", label)
		}
		if !e.branch(cond) {
			e.abort("panic", label)
		}
		return
	}
	if cond.IsFalse() {
		e.check(cond, label)
		e.abort("panic", label)
	}
	e.check(cond, label)
}

var _ = Sat

// ---------- function execution ----------

func (e *Exec) info(fn *ssa.Function) *fnInfo {
	if fi, ok := e.fnInfos[fn]; ok {
		return fi
	}
	fi := &fnInfo{idx: map[ssa.Value]int{}}
	for _, p := range fn.Params {
		fi.idx[p] = fi.n
		fi.n++
	}
	for _, p := range fn.FreeVars {
		fi.idx[p] = fi.n
		fi.n++
	}
	for _, b := range fn.Blocks {
		for _, ins := range b.Instrs {
			if v, ok := ins.(ssa.Value); ok {
				fi.idx[v] = fi.n
				fi.n++
			}
		}
	}
	e.fnInfos[fn] = fi
	return fi
}

func (e *Exec) call(fn *ssa.Function, args []Value, bindings []Value) Value {
	act := e.action(fn)
	switch act.kind {
	case actIntrinsic:
		if act.condExec != nil && act.condExec(args) {
			return e.execute(fn, args, bindings)
		}
		return act.intrinsic(e, fn, args)
	case actRedirect:
		e.RedirectsHit[act.name+" -> "+act.target.String()]++
		return e.call(act.target, args, nil)
	case actStub:
		e.StubsHit[act.name]++
		return e.stubResult(fn.Signature, act.name)
	case actUnsupported:
		e.unsupported("call to %s (no body, no model)", act.name)
	}
	return e.execute(fn, args, bindings)
}

func (e *Exec) stubResult(sig *types.Signature, note string) Value {
	res := sig.Results()
	switch res.Len() {
	case 0:
		return nil
	case 1:
		return e.opaqueOrZero(res.At(0).Type(), note)
	}
	return e.opaqueOrZero(res, note)
}

func (e *Exec) execute(fn *ssa.Function, args []Value, bindings []Value) Value {
	if fn.Blocks == nil {
		e.unsupported("function without body: %s", fn.String())
	}
	e.FuncsEntered[fn.String()]++
	e.depth++
	if e.depth > e.MaxDepthSeen {
		e.MaxDepthSeen = e.depth
	}
	if e.depth > 400 {
		e.abort("budget", "call depth exceeded in "+fn.String())
	}
	fi := e.info(fn)
	fr := &frame{fn: fn, info: fi, regs: make([]Value, fi.n), visits: make([]int, len(fn.Blocks)), caller: e.cur, pos: fn.Pos()}
	if len(args) != len(fn.Params) {
		panic(fmt.Sprintf("internal: %s called with %d args, wants %d", fn, len(args), len(fn.Params)))
	}
	copy(fr.regs, args)
	copy(fr.regs[len(fn.Params):], bindings)
	saved := e.cur
	e.cur = fr
	res := e.runFrame(fr)
	e.cur = saved
	e.depth--
	return res
}

func (e *Exec) runFrame(fr *frame) Value {
	b := fr.fn.Blocks[0]
	var prev *ssa.BasicBlock
	for {
		fr.visits[b.Index]++
		if e.cfg.MaxUnwind > 0 && fr.visits[b.Index] > e.cfg.MaxUnwind {
			e.unwindExceeded(fr, b)
		}
		// phis
		nphi := 0
		if prev != nil {
			var edge int
			for i, p := range b.Preds {
				if p == prev {
					edge = i
					break
				}
			}
			var vals []Value
			for _, ins := range b.Instrs {
				phi, ok := ins.(*ssa.Phi)
				if !ok {
					break
				}
				vals = append(vals, e.get(fr, phi.Edges[edge]))
				nphi++
			}
			for i := 0; i < nphi; i++ {
				fr.regs[fr.info.idx[b.Instrs[i].(*ssa.Phi)]] = vals[i]
			}
		}
		var next *ssa.BasicBlock
		for _, ins := range b.Instrs[nphi:] {
			e.steps++
			if e.cfg.MaxSteps > 0 && e.steps > e.cfg.MaxSteps {
				e.abort("budget", "step budget exceeded")
			}
			if e.steps&0xffff == 0 && e.cfg.MaxWallS > 0 && time.Since(e.started) > time.Duration(e.cfg.MaxWallS+60)*time.Second {
				e.abort("budget", "wall-clock budget exceeded inside a path")
			}
			if p := ins.Pos(); p.IsValid() {
				fr.pos = p
			}
			switch ins := ins.(type) {
			case *ssa.If:
				c := e.get(fr, ins.Cond)
				ct, ok := c.(*Term)
				if !ok {
					e.unsupported("branch on %T", c)
				}
				if e.branch(ct) {
					next = b.Succs[0]
				} else {
					next = b.Succs[1]
				}
			case *ssa.Jump:
				next = b.Succs[0]
			case *ssa.Return:
				switch len(ins.Results) {
				case 0:
					return nil
				case 1:
					return e.get(fr, ins.Results[0])
				}
				tv := make(TupleV, len(ins.Results))
				for i, r := range ins.Results {
					tv[i] = e.get(fr, r)
				}
				return tv
			case *ssa.Panic:
				v := e.get(fr, ins.X)
				e.goPanic("explicit(" + e.describe(v) + ")")
			default:
				e.step(fr, ins)
			}
		}
		if next == nil {
			panic("internal: block without terminator")
		}
		prev, b = b, next
	}
}

func (e *Exec) unwindExceeded(fr *frame, b *ssa.BasicBlock) {
	label := fmt.Sprintf("unwind@%s:%s", fr.fn.Name(), e.posStr(fr.pos))
	e.Violations[label] = e.Violations[label] // no-op keep map
	// an exceeded unwinding bound on a feasible path is reported through check
	e.check(e.ts.False, label)
	e.abort("unwind", label)
}

func (e *Exec) posStr(p token.Pos) string {
	ps := e.prog.Fset.Position(p)
	return fmt.Sprintf("%s:%d", shortFile(ps.Filename), ps.Line)
}

func (e *Exec) describe(v Value) string {
	switch x := v.(type) {
	case IfaceV:
		if s, ok := x.V.(*StrV); ok && s.Concrete() {
			return s.S
		}
		if x.T != nil {
			return x.T.String()
		}
		return "nil"
	case *StrV:
		if x.Concrete() {
			return x.S
		}
	}
	return fmt.Sprintf("%T", v)
}

func (e *Exec) get(fr *frame, v ssa.Value) Value {
	switch x := v.(type) {
	case *ssa.Const:
		return e.constValue(x)
	case *ssa.Global:
		return e.global(x)
	case *ssa.Function:
		return &FuncV{Fn: x}
	case *ssa.Builtin:
		return &FuncV{Builtin: x}
	}
	i, ok := fr.info.idx[v]
	if !ok {
		panic(fmt.Sprintf("internal: unknown value %s in %s", v.Name(), fr.fn))
	}
	return fr.regs[i]
}

func (e *Exec) set(fr *frame, v ssa.Value, val Value) {
	fr.regs[fr.info.idx[v]] = val
}

func (e *Exec) constValue(c *ssa.Const) Value {
	t := c.Type()
	if c.Value == nil {
		return e.zero(t)
	}
	if w, _, ok := intWidth(t); ok {
		if w == 0 {
			return e.ts.Bool(constant.BoolVal(c.Value))
		}
		iv := constant.ToInt(c.Value)
		if u, ok := constant.Uint64Val(iv); ok {
			return e.ts.Const(w, u)
		}
		if s, ok := constant.Int64Val(iv); ok {
			return e.ts.Const(w, uint64(s))
		}
		panic("const out of range: " + c.String())
	}
	if isFloat(t) {
		f, _ := constant.Float64Val(constant.ToFloat(c.Value))
		return FloatV{F: f}
	}
	if isString(t) {
		return &StrV{S: constant.StringVal(c.Value)}
	}
	if b, ok := t.Underlying().(*types.Basic); ok && b.Info()&types.IsComplex != 0 {
		return FloatV{}
	}
	panic(fmt.Sprintf("constValue: unsupported const %s of type %s", c, t))
}

func (e *Exec) global(g *ssa.Global) *Cell {
	if c, ok := e.globals[g]; ok {
		return c
	}
	e.ensureInit(g.Pkg)
	if c, ok := e.globals[g]; ok {
		return c
	}
	c := e.newCell(g.Type().(*types.Pointer).Elem())
	e.globals[g] = c
	if ov, ok := globalOverrides[g.String()]; ok {
		ov(e, c)
	}
	return c
}

func (e *Exec) ensureInit(pkg *ssa.Package) {
	if pkg == nil || e.initDone[pkg] {
		return
	}
	e.initDone[pkg] = true
	if !e.pkgInitAllowed(pkg.Pkg.Path()) {
		return
	}
	initFn := pkg.Func("init")
	if initFn == nil || initFn.Blocks == nil {
		return
	}
	saved := e.cur
	savedDepth := e.depth
	e.execute(initFn, nil, nil)
	e.cur = saved
	e.depth = savedDepth
}

// ---------- instruction step ----------

func (e *Exec) step(fr *frame, ins ssa.Instruction) {
	switch ins := ins.(type) {
	case *ssa.DebugRef:
	case *ssa.Alloc:
		e.set(fr, ins, e.newCell(ins.Type().(*types.Pointer).Elem()))
	case *ssa.UnOp:
		e.set(fr, ins, e.unop(fr, ins))
	case *ssa.BinOp:
		x, y := e.get(fr, ins.X), e.get(fr, ins.Y)
		e.set(fr, ins, e.binop(ins.Op, ins.X.Type(), ins.Y.Type(), x, y))
	case *ssa.Call:
		e.set(fr, ins, e.callCommon(fr, &ins.Call))
	case *ssa.Store:
		addr := e.get(fr, ins.Addr)
		e.storeTo(addr, e.get(fr, ins.Val))
	case *ssa.FieldAddr:
		x := e.get(fr, ins.X)
		c := e.derefCell(x)
		if c.Fields == nil {
			if _, isO := c.V.(*OpaqueV); isO || c.V == nil {
				// opaque struct: fabricate cell
				pt := ins.Type().(*types.Pointer).Elem()
				nc := e.newCell(pt)
				if !isScalarKind(pt) {
					e.store(nc, e.opaqueOrZero(pt, "field of opaque"))
				}
				e.set(fr, ins, nc)
				return
			}
			e.unsupported("FieldAddr on non-struct cell (%T)", c.V)
		}
		e.set(fr, ins, c.Fields[ins.Field])
	case *ssa.Field:
		x := e.get(fr, ins.X)
		switch sv := x.(type) {
		case *StructV:
			e.set(fr, ins, sv.F[ins.Field])
		case *OpaqueV:
			e.set(fr, ins, e.opaqueOrZero(ins.Type(), sv.Note))
		default:
			e.unsupported("Field on %T", x)
		}
	case *ssa.IndexAddr:
		e.set(fr, ins, e.indexAddr(fr, ins))
	case *ssa.Index:
		e.set(fr, ins, e.index(fr, ins))
	case *ssa.Slice:
		e.set(fr, ins, e.slice(fr, ins))
	case *ssa.MakeSlice:
		ln := e.concInt(e.get(fr, ins.Len), "make len")
		cp := e.concInt(e.get(fr, ins.Cap), "make cap")
		if ln < 0 || cp < ln {
			e.goPanic("makeslice: len out of range")
		}
		if cp > 1<<31 {
			e.unsupported("make with capacity %d", cp)
		}
		et := ins.Type().Underlying().(*types.Slice).Elem()
		arr := e.newArray(et, int(cp))
		e.set(fr, ins, SliceV{Arr: arr, Off: 0, Len: int(ln), Cap: int(cp)})
	case *ssa.MakeInterface:
		e.set(fr, ins, IfaceV{T: ins.X.Type(), V: e.get(fr, ins.X)})
	case *ssa.MakeClosure:
		fn := ins.Fn.(*ssa.Function)
		b := make([]Value, len(ins.Bindings))
		for i, bv := range ins.Bindings {
			b[i] = e.get(fr, bv)
		}
		e.set(fr, ins, &FuncV{Fn: fn, Bindings: b})
	case *ssa.MakeMap:
		e.cellID++
		e.set(fr, ins, &MapObj{T: ins.Type().Underlying().(*types.Map), id: e.cellID})
	case *ssa.MakeChan:
		sz := e.concInt(e.get(fr, ins.Size), "chan size")
		e.cellID++
		e.set(fr, ins, &ChanObj{T: ins.Type().Underlying().(*types.Chan), Cap: int(sz), id: e.cellID})
	case *ssa.MapUpdate:
		m := e.get(fr, ins.Map)
		mo, ok := m.(*MapObj)
		if !ok {
			if _, isO := m.(*OpaqueV); isO {
				return
			}
			e.unsupported("MapUpdate on %T", m)
		}
		if mo == nil {
			e.goPanic("assignment to entry in nil map")
		}
		k := e.get(fr, ins.Key)
		ent := e.mapFind(mo, k, true)
		e.store(ent.V, e.get(fr, ins.Value))
	case *ssa.Lookup:
		e.set(fr, ins, e.lookup(fr, ins))
	case *ssa.Range:
		x := e.get(fr, ins.X)
		switch xv := x.(type) {
		case *MapObj:
			it := &RangeIter{M: xv}
			if xv != nil {
				it.Keys = append(it.Keys, xv.Entries...)
			}
			e.set(fr, ins, it)
		case *StrV:
			e.set(fr, ins, &RangeIter{S: xv})
		case *OpaqueV:
			e.set(fr, ins, &RangeIter{})
		default:
			e.unsupported("Range over %T", x)
		}
	case *ssa.Next:
		e.set(fr, ins, e.next(fr, ins))
	case *ssa.Extract:
		t := e.get(fr, ins.Tuple)
		switch tv := t.(type) {
		case TupleV:
			e.set(fr, ins, tv[ins.Index])
		case *OpaqueV:
			e.set(fr, ins, e.opaqueOrZero(ins.Type(), tv.Note))
		default:
			e.unsupported("Extract from %T", t)
		}
	case *ssa.Phi:
		panic("phi in the middle of a block")
	case *ssa.ChangeType:
		e.set(fr, ins, e.get(fr, ins.X))
	case *ssa.ChangeInterface:
		e.set(fr, ins, e.get(fr, ins.X))
	case *ssa.Convert:
		e.set(fr, ins, e.convert(ins.X.Type(), ins.Type(), e.get(fr, ins.X)))
	case *ssa.MultiConvert:
		e.set(fr, ins, e.convert(ins.X.Type(), ins.Type(), e.get(fr, ins.X)))
	case *ssa.TypeAssert:
		e.set(fr, ins, e.typeAssert(fr, ins))
	case *ssa.SliceToArrayPointer:
		x := e.get(fr, ins.X).(SliceV)
		n := int(ins.Type().(*types.Pointer).Elem().Underlying().(*types.Array).Len())
		if x.Len < n {
			e.goPanic("slice to array pointer: length too short")
		}
		if x.Off != 0 || x.Arr == nil || x.Arr.N != n {
			e.unsupported("SliceToArrayPointer with offset")
		}
		e.cellID++
		e.set(fr, ins, &Cell{Arr: x.Arr, Typ: ins.Type().(*types.Pointer).Elem(), id: e.cellID})
	case *ssa.Defer:
		d := deferred{call: &ins.Call}
		d.fn, d.args = e.prepareCall(fr, &ins.Call)
		fr.defers = append(fr.defers, d)
	case *ssa.RunDefers:
		for len(fr.defers) > 0 {
			d := fr.defers[len(fr.defers)-1]
			fr.defers = fr.defers[:len(fr.defers)-1]
			e.invokePrepared(fr, d.call, d.fn, d.args)
		}
	case *ssa.Go:
		e.goStmt(fr, ins)
	case *ssa.Send:
		e.chanSend(e.get(fr, ins.Chan), e.get(fr, ins.X))
	case *ssa.Select:
		e.set(fr, ins, e.selectStmt(fr, ins))
	default:
		e.unsupported("instruction %T", ins)
	}
}

func isScalarKind(t types.Type) bool {
	_, ok := t.Underlying().(*types.Basic)
	return ok
}

func (e *Exec) derefCell(p Value) *Cell {
	switch x := p.(type) {
	case *Cell:
		if x == nil {
			e.goPanic("nil pointer dereference")
		}
		return x
	case NilPtr:
		e.goPanic("nil pointer dereference")
	case *OpaqueV:
		e.cellID++
		return &Cell{V: x, id: e.cellID}
	}
	e.unsupported("dereference of %T", p)
	return nil
}

// SymPtr is the address of a slice element selected by a symbolic index.
type SymPtr struct {
	S   SliceV
	Idx *Term
}

func (e *Exec) storeTo(addr Value, v Value) {
	switch a := addr.(type) {
	case *SymPtr:
		vt, ok := v.(*Term)
		if !ok {
			e.unsupported("symbolic-index store of %T", v)
		}
		for i := 0; i < a.S.Len; i++ {
			c := e.at(a.S.Arr, a.S.Off+i)
			old := c.V.(*Term)
			c.V = e.ts.Ite(e.ts.Eq(a.Idx, e.ts.Const(a.Idx.W, uint64(i))), vt, old)
		}
		return
	}
	c := e.derefCell(addr)
	if _, isO := c.V.(*OpaqueV); isO && c.Fields == nil && c.Arr == nil {
		return // store into opaque object: dropped
	}
	e.store(c, v)
}

func (e *Exec) unop(fr *frame, ins *ssa.UnOp) Value {
	x := e.get(fr, ins.X)
	switch ins.Op {
	case token.MUL:
		if sp, ok := x.(*SymPtr); ok {
			return e.symLoad(sp)
		}
		c := e.derefCell(x)
		if o, isO := c.V.(*OpaqueV); isO && c.Fields == nil && c.Arr == nil {
			return e.opaqueOrZero(ins.Type(), o.Note)
		}
		v := e.load(c)
		if sv, isS := v.(SliceV); isS && isString(ins.Type()) {
			// *(*string)(unsafe.Pointer(&b)): a string view of a byte slice
			return e.mkStr(e.sliceBytes(sv))
		}
		return v
	case token.NOT:
		return e.ts.Not(x.(*Term))
	case token.SUB:
		switch v := x.(type) {
		case *Term:
			return e.ts.Neg(v)
		case FloatV:
			return FloatV{F: -v.F, Opaque: v.Opaque}
		}
	case token.XOR:
		return e.ts.BNot(x.(*Term))
	case token.ARROW:
		return e.chanRecv(x, ins.CommaOk, ins.Type())
	}
	e.unsupported("unop %s on %T", ins.Op, x)
	return nil
}

func (e *Exec) symLoad(sp *SymPtr) Value {
	var res *Term
	for i := sp.S.Len - 1; i >= 0; i-- {
		var v *Term
		if c := sp.S.Arr.peek(sp.S.Off + i); c != nil {
			t, ok := c.V.(*Term)
			if !ok {
				e.unsupported("symbolic-index load of %T", c.V)
			}
			v = t
		} else {
			z, ok := e.zero(sp.S.Arr.Elem).(*Term)
			if !ok {
				e.unsupported("symbolic-index load of non-scalar")
			}
			v = z
		}
		if res == nil {
			res = v
		} else {
			res = e.ts.Ite(e.ts.Eq(sp.Idx, e.ts.Const(sp.Idx.W, uint64(i))), v, res)
		}
	}
	if res == nil {
		e.abort("infeasible", "symbolic load from empty slice")
	}
	return res
}

// concInt returns a concrete int64 for an integer value (enumerating if symbolic).
func (e *Exec) concInt(v Value, what string) int64 {
	t, ok := v.(*Term)
	if !ok {
		e.unsupported("concInt of %T (%s)", v, what)
	}
	if t.IsConst() {
		return t.SInt()
	}
	u := e.concretize(t, what)
	return e.ts.Const(t.W, u).SInt()
}

func (e *Exec) indexAddr(fr *frame, ins *ssa.IndexAddr) Value {
	x := e.get(fr, ins.X)
	idx := e.toInt64Term(e.get(fr, ins.Index), ins.Index.Type())
	var s SliceV
	switch xv := x.(type) {
	case SliceV:
		s = xv
	case *Cell:
		if xv == nil {
			e.goPanic("nil pointer dereference")
		}
		if xv.Arr == nil {
			e.unsupported("IndexAddr on non-array cell")
		}
		s = SliceV{Arr: xv.Arr, Off: 0, Len: xv.Arr.N, Cap: xv.Arr.N}
	case NilPtr:
		e.goPanic("nil pointer dereference")
	default:
		e.unsupported("IndexAddr on %T", x)
	}
	if idx.IsConst() {
		i := idx.SInt()
		if i < 0 || i >= int64(s.Len) {
			e.goPanic(fmt.Sprintf("index out of range [%d] with length %d", i, s.Len))
		}
		return e.at(s.Arr, s.Off+int(i))
	}
	e.require(e.ts.Cmp(OpUlt, idx, e.ts.Const(64, uint64(s.Len))), "index out of range")
	if s.Len == 1 {
		return e.at(s.Arr, s.Off)
	}
	if s.Len > 64 || storesThrough(ins) {
		// a write through a symbolic index would turn the whole buffer into ite terms:
		// case-split on the feasible positions instead
		i := e.concInt(idx, "index")
		return e.at(s.Arr, s.Off+int(i))
	}
	return &SymPtr{S: s, Idx: idx}
}

func storesThrough(ins *ssa.IndexAddr) bool {
	refs := ins.Referrers()
	if refs == nil {
		return false
	}
	for _, r := range *refs {
		if st, ok := r.(*ssa.Store); ok && st.Addr == ins {
			return true
		}
	}
	return false
}

// toInt64Term widens an index value to 64 bits according to its type.
func (e *Exec) toInt64Term(v Value, t types.Type) *Term {
	tm, ok := v.(*Term)
	if !ok {
		e.unsupported("index of %T", v)
	}
	w, signed, _ := intWidth(t)
	if w == 64 || w == 0 {
		return tm
	}
	if signed {
		return e.ts.SExt(tm, 64)
	}
	return e.ts.ZExt(tm, 64)
}

func (e *Exec) index(fr *frame, ins *ssa.Index) Value {
	x := e.get(fr, ins.X)
	idx := e.toInt64Term(e.get(fr, ins.Index), ins.Index.Type())
	switch xv := x.(type) {
	case *ArrayV:
		if idx.IsConst() {
			i := idx.SInt()
			if i < 0 || i >= int64(len(xv.E)) {
				e.goPanic("index out of range")
			}
			return xv.E[i]
		}
		e.require(e.ts.Cmp(OpUlt, idx, e.ts.Const(64, uint64(len(xv.E)))), "index out of range")
		return e.iteChain(idx, xv.E)
	case *StrV:
		bs := e.strBytes(xv)
		if idx.IsConst() {
			i := idx.SInt()
			if i < 0 || i >= int64(len(bs)) {
				e.goPanic("index out of range")
			}
			return bs[i]
		}
		e.require(e.ts.Cmp(OpUlt, idx, e.ts.Const(64, uint64(len(bs)))), "index out of range")
		vs := make([]Value, len(bs))
		for i := range bs {
			vs[i] = bs[i]
		}
		return e.iteChain(idx, vs)
	}
	e.unsupported("Index on %T", x)
	return nil
}

func (e *Exec) iteChain(idx *Term, vs []Value) Value {
	var res *Term
	for i := len(vs) - 1; i >= 0; i-- {
		v, ok := vs[i].(*Term)
		if !ok {
			e.unsupported("symbolic index into non-scalar elements")
		}
		if res == nil {
			res = v
		} else {
			res = e.ts.Ite(e.ts.Eq(idx, e.ts.Const(idx.W, uint64(i))), v, res)
		}
	}
	if res == nil {
		e.abort("infeasible", "index into empty")
	}
	return res
}

func (e *Exec) slice(fr *frame, ins *ssa.Slice) Value {
	x := e.get(fr, ins.X)
	var lo, hi, mx *Term
	if ins.Low != nil {
		lo = e.toInt64Term(e.get(fr, ins.Low), ins.Low.Type())
	}
	if ins.High != nil {
		hi = e.toInt64Term(e.get(fr, ins.High), ins.High.Type())
	}
	if ins.Max != nil {
		mx = e.toInt64Term(e.get(fr, ins.Max), ins.Max.Type())
	}
	switch xv := x.(type) {
	case *StrV:
		bs := e.strBytes(xv)
		l, h := e.sliceBounds(lo, hi, nil, len(bs), len(bs))
		return e.mkStr(bs[l:h])
	case SliceV:
		l, h, m := e.sliceBounds3(lo, hi, mx, xv.Len, xv.Cap)
		if xv.Arr == nil {
			return SliceV{}
		}
		return SliceV{Arr: xv.Arr, Off: xv.Off + l, Len: h - l, Cap: m - l}
	case *Cell:
		if xv == nil {
			e.goPanic("nil pointer dereference")
		}
		if xv.Arr == nil {
			e.unsupported("Slice of non-array pointer")
		}
		l, h, m := e.sliceBounds3(lo, hi, mx, xv.Arr.N, xv.Arr.N)
		return SliceV{Arr: xv.Arr, Off: l, Len: h - l, Cap: m - l}
	}
	e.unsupported("Slice on %T", x)
	return nil
}

func (e *Exec) sliceBounds(lo, hi, mx *Term, ln, cp int) (int, int) {
	l, h, _ := e.sliceBounds3(lo, hi, mx, ln, cp)
	return l, h
}

// sliceBounds3 checks 0 <= lo <= hi <= max <= cap and concretises.
func (e *Exec) sliceBounds3(lo, hi, mx *Term, ln, cp int) (int, int, int) {
	ts := e.ts
	if lo == nil {
		lo = ts.Const(64, 0)
	}
	if hi == nil {
		hi = ts.Const(64, uint64(ln))
	}
	capT := ts.Const(64, uint64(cp))
	if mx == nil {
		mx = capT
	} else {
		e.require(ts.Cmp(OpUle, mx, capT), "slice bounds out of range (max)")
	}
	e.require(ts.Cmp(OpUle, hi, mx), "slice bounds out of range (high)")
	e.require(ts.Cmp(OpUle, lo, hi), "slice bounds out of range (low)")
	l := int(e.concInt(lo, "slice low"))
	h := int(e.concInt(hi, "slice high"))
	m := int(e.concInt(mx, "slice max"))
	return l, h, m
}

func (e *Exec) typeAssert(fr *frame, ins *ssa.TypeAssert) Value {
	x := e.get(fr, ins.X)
	iv, ok := x.(IfaceV)
	if !ok {
		if o, isO := x.(*OpaqueV); isO {
			iv = IfaceV{T: opaqueType, V: o}
		} else {
			e.unsupported("TypeAssert on %T", x)
		}
	}
	var okv bool
	var res Value
	if types.IsInterface(ins.AssertedType) {
		if iv.T != nil && iv.T != opaqueType {
			okv = types.Implements(iv.T, ins.AssertedType.Underlying().(*types.Interface))
		}
		res = iv
	} else {
		okv = iv.T != nil && types.Identical(iv.T, ins.AssertedType)
		res = iv.V
	}
	if ins.CommaOk {
		if !okv {
			res = e.zero(ins.AssertedType)
		}
		return TupleV{res, e.ts.Bool(okv)}
	}
	if !okv {
		e.goPanic("interface conversion failed")
	}
	return res
}

func (e *Exec) lookup(fr *frame, ins *ssa.Lookup) Value {
	x := e.get(fr, ins.X)
	switch xv := x.(type) {
	case *StrV:
		idx := e.toInt64Term(e.get(fr, ins.Index), ins.Index.Type())
		bs := e.strBytes(xv)
		if idx.IsConst() {
			i := idx.SInt()
			if i < 0 || i >= int64(len(bs)) {
				e.goPanic("string index out of range")
			}
			return bs[i]
		}
		e.require(e.ts.Cmp(OpUlt, idx, e.ts.Const(64, uint64(len(bs)))), "index out of range")
		vs := make([]Value, len(bs))
		for i := range bs {
			vs[i] = bs[i]
		}
		return e.iteChain(idx, vs)
	case *MapObj:
		k := e.get(fr, ins.Index)
		vt := xv0type(ins)
		var ent *mapEntry
		if xv != nil {
			ent = e.mapFind(xv, k, false)
		}
		var v Value
		if ent != nil {
			v = e.load(ent.V)
		} else {
			v = e.zero(vt)
		}
		if ins.CommaOk {
			return TupleV{v, e.ts.Bool(ent != nil)}
		}
		return v
	case *OpaqueV:
		return e.opaqueOrZero(ins.Type(), xv.Note)
	}
	e.unsupported("Lookup on %T", x)
	return nil
}

func xv0type(ins *ssa.Lookup) types.Type {
	if ins.CommaOk {
		return ins.Type().(*types.Tuple).At(0).Type()
	}
	return ins.Type()
}

// mapFind finds (or creates) the entry for key k. Keys must compare concretely;
// a symbolic comparison forks.
func (e *Exec) mapFind(m *MapObj, k Value, create bool) *mapEntry {
	for _, ent := range m.Entries {
		eq := e.valuesEqual(ent.K, k)
		if e.branch(eq) {
			return ent
		}
	}
	if !create {
		return nil
	}
	ent := &mapEntry{K: k, V: e.newCell(m.T.Elem())}
	m.Entries = append(m.Entries, ent)
	return ent
}

func (e *Exec) mapDelete(m *MapObj, k Value) {
	if m == nil {
		return
	}
	for i, ent := range m.Entries {
		if e.branch(e.valuesEqual(ent.K, k)) {
			m.Entries = append(append([]*mapEntry{}, m.Entries[:i]...), m.Entries[i+1:]...)
			return
		}
	}
}

func (e *Exec) next(fr *frame, ins *ssa.Next) Value {
	it := e.get(fr, ins.Iter).(*RangeIter)
	if ins.IsString {
		if it.S == nil || it.I >= it.S.Len() {
			return TupleV{e.ts.False, e.ts.Const(64, 0), e.ts.Const(32, 0)}
		}
		bs := e.strBytes(it.S)
		b := bs[it.I]
		if !b.IsConst() {
			// treat symbolic bytes as single-byte runes only if < 0x80
			e.assume(e.ts.Cmp(OpUlt, b, e.ts.Const(8, 0x80)))
			r := TupleV{e.ts.True, e.ts.Const(64, uint64(it.I)), e.ts.ZExt(b, 32)}
			it.I++
			return r
		}
		if b.K < 0x80 {
			r := TupleV{e.ts.True, e.ts.Const(64, uint64(it.I)), e.ts.Const(32, b.K)}
			it.I++
			return r
		}
		// decode concretely
		if !it.S.Concrete() {
			e.unsupported("range over symbolic multi-byte string")
		}
		rest := it.S.S[it.I:]
		for i, rn := range rest {
			_ = i
			sz := len(string(rn))
			if rn == 0xFFFD {
				sz = 1
			}
			r := TupleV{e.ts.True, e.ts.Const(64, uint64(it.I)), e.ts.Const(32, uint64(rn))}
			it.I += sz
			return r
		}
	}
	tt := ins.Type().(*types.Tuple)
	for it.M != nil && it.I < len(it.Keys) {
		ent := it.Keys[it.I]
		it.I++
		// skip entries deleted during iteration
		present := false
		for _, cur := range it.M.Entries {
			if cur == ent {
				present = true
				break
			}
		}
		if !present {
			continue
		}
		return TupleV{e.ts.True, ent.K, e.load(ent.V)}
	}
	return TupleV{e.ts.False, e.zeroOrNil(tt.At(1).Type()), e.zeroOrNil(tt.At(2).Type())}
}

func (e *Exec) zeroOrNil(t types.Type) Value {
	if b, ok := t.(*types.Basic); ok && b.Kind() == types.Invalid {
		return nil
	}
	return e.zero(t)
}

// ---------- calls ----------

func (e *Exec) prepareCall(fr *frame, cc *ssa.CallCommon) (Value, []Value) {
	args := make([]Value, 0, len(cc.Args)+1)
	var fnv Value
	if cc.IsInvoke() {
		fnv = e.get(fr, cc.Value) // receiver interface
	} else {
		fnv = e.get(fr, cc.Value)
	}
	for _, a := range cc.Args {
		args = append(args, e.get(fr, a))
	}
	return fnv, args
}

func (e *Exec) callCommon(fr *frame, cc *ssa.CallCommon) Value {
	fnv, args := e.prepareCall(fr, cc)
	return e.invokePrepared(fr, cc, fnv, args)
}

func (e *Exec) invokePrepared(fr *frame, cc *ssa.CallCommon, fnv Value, args []Value) Value {
	if cc.IsInvoke() {
		var iv IfaceV
		switch r := fnv.(type) {
		case IfaceV:
			iv = r
		case *OpaqueV:
			iv = IfaceV{T: opaqueType, V: r}
		default:
			e.unsupported("invoke on %T", fnv)
		}
		if iv.T == nil {
			e.goPanic("nil interface method call " + cc.Method.Name())
		}
		if iv.T == opaqueType {
			name := "opaque." + cc.Method.Name()
			e.StubsHit[name]++
			return e.stubResult(cc.Signature(), name)
		}
		fn := e.lookupMethod(iv.T, cc.Method)
		if fn == nil {
			e.unsupported("method %s not found on %s", cc.Method.Name(), iv.T)
		}
		return e.call(fn, append([]Value{iv.V}, args...), nil)
	}
	switch f := fnv.(type) {
	case *FuncV:
		if f == nil {
			e.goPanic("call of nil function")
		}
		if f.Builtin != nil {
			return e.builtin(fr, f.Builtin, cc, args)
		}
		if f.Native != nil {
			return f.Native(e, args)
		}
		return e.call(f.Fn, args, f.Bindings)
	case *OpaqueV:
		e.StubsHit["opaque-func"]++
		return e.stubResult(cc.Signature(), "opaque func")
	}
	e.unsupported("call of %T", fnv)
	return nil
}

func (e *Exec) lookupMethod(t types.Type, m *types.Func) *ssa.Function {
	ms := e.prog.MethodSets.MethodSet(t)
	sel := ms.Lookup(m.Pkg(), m.Name())
	if sel == nil {
		return nil
	}
	return e.prog.MethodValue(sel)
}

// callValue calls a function value with args (used by intrinsics).
func (e *Exec) callValue(fv Value, args []Value) Value {
	switch f := fv.(type) {
	case *FuncV:
		if f == nil {
			e.goPanic("call of nil function")
		}
		if f.Native != nil {
			return f.Native(e, args)
		}
		return e.call(f.Fn, args, f.Bindings)
	case *OpaqueV:
		return nil
	}
	e.unsupported("callValue of %T", fv)
	return nil
}
