package main

import (
	"fmt"
	"math/bits"
	"strconv"
	"strings"
)

// Op is an SMT operator over Bool (W==0) and bit-vectors of width 1..64.
type Op uint8

const (
	OpConst Op = iota
	OpVar
	OpNot
	OpAnd
	OpOr
	OpEq
	OpIte
	OpAdd
	OpSub
	OpMul
	OpUDiv
	OpSDiv
	OpURem
	OpSRem
	OpBAnd
	OpBOr
	OpBXor
	OpShl
	OpLShr
	OpAShr
	OpBNot
	OpUlt
	OpUle
	OpSlt
	OpSle
	OpExtract
	OpZExt
	OpSExt
	OpConcat
)

var opNames = [...]string{
	OpNot: "not", OpAnd: "and", OpOr: "or", OpEq: "=", OpIte: "ite",
	OpAdd: "bvadd", OpSub: "bvsub", OpMul: "bvmul", OpUDiv: "bvudiv", OpSDiv: "bvsdiv",
	OpURem: "bvurem", OpSRem: "bvsrem", OpBAnd: "bvand", OpBOr: "bvor", OpBXor: "bvxor",
	OpShl: "bvshl", OpLShr: "bvlshr", OpAShr: "bvashr", OpBNot: "bvnot",
	OpUlt: "bvult", OpUle: "bvule", OpSlt: "bvslt", OpSle: "bvsle", OpConcat: "concat",
}

// Term is an immutable hash-consed SMT term.
type Term struct {
	Op   Op
	W    int // 0 = Bool
	A    []*Term
	K    uint64 // constant value (masked); for Bool 0/1
	Hi   int    // extract hi / extension amount
	Lo   int    // extract lo
	Name string // variable name
	id   int
	size int    // dag size estimate
	def  string // name of emitted define-fun ("" if not emitted)
}

// TermStore hash-conses terms for one worker.
type TermStore struct {
	tab   map[string]*Term
	n     int
	True  *Term
	False *Term
	vars  []*Term // in creation order
}

func NewTermStore() *TermStore {
	ts := &TermStore{tab: map[string]*Term{}}
	ts.True = ts.mk(&Term{Op: OpConst, W: 0, K: 1})
	ts.False = ts.mk(&Term{Op: OpConst, W: 0, K: 0})
	return ts
}

func (ts *TermStore) key(t *Term) string {
	var sb strings.Builder
	sb.WriteByte(byte('A' + t.Op))
	sb.WriteString(strconv.Itoa(t.W))
	switch t.Op {
	case OpConst:
		sb.WriteByte(':')
		sb.WriteString(strconv.FormatUint(t.K, 16))
	case OpVar:
		sb.WriteByte(':')
		sb.WriteString(t.Name)
	case OpExtract, OpZExt, OpSExt:
		sb.WriteByte(':')
		sb.WriteString(strconv.Itoa(t.Hi))
		sb.WriteByte(',')
		sb.WriteString(strconv.Itoa(t.Lo))
	}
	for _, a := range t.A {
		sb.WriteByte(' ')
		sb.WriteString(strconv.Itoa(a.id))
	}
	return sb.String()
}

func (ts *TermStore) mk(t *Term) *Term {
	k := ts.key(t)
	if o, ok := ts.tab[k]; ok {
		return o
	}
	ts.n++
	t.id = ts.n
	t.size = 1
	for _, a := range t.A {
		t.size += a.size
		if t.size > 1<<30 {
			t.size = 1 << 30
		}
	}
	ts.tab[k] = t
	if t.Op == OpVar {
		ts.vars = append(ts.vars, t)
	}
	return t
}

func mask(w int) uint64 {
	if w >= 64 {
		return ^uint64(0)
	}
	return (uint64(1) << uint(w)) - 1
}

func (t *Term) IsConst() bool { return t.Op == OpConst }
func (t *Term) IsTrue() bool  { return t.Op == OpConst && t.W == 0 && t.K == 1 }
func (t *Term) IsFalse() bool { return t.Op == OpConst && t.W == 0 && t.K == 0 }

// SInt returns the constant as a sign-extended int64.
func (t *Term) SInt() int64 {
	if t.W >= 64 {
		return int64(t.K)
	}
	if t.K&(uint64(1)<<uint(t.W-1)) != 0 {
		return int64(t.K | ^mask(t.W))
	}
	return int64(t.K)
}

func (ts *TermStore) Const(w int, v uint64) *Term {
	if w == 0 {
		if v != 0 {
			return ts.True
		}
		return ts.False
	}
	return ts.mk(&Term{Op: OpConst, W: w, K: v & mask(w)})
}

func (ts *TermStore) Bool(b bool) *Term {
	if b {
		return ts.True
	}
	return ts.False
}

func (ts *TermStore) Var(name string, w int) *Term {
	return ts.mk(&Term{Op: OpVar, W: w, Name: name})
}

func (ts *TermStore) Not(a *Term) *Term {
	if a.W != 0 {
		panic("Not on non-bool")
	}
	if a.IsConst() {
		return ts.Bool(a.K == 0)
	}
	if a.Op == OpNot {
		return a.A[0]
	}
	return ts.mk(&Term{Op: OpNot, W: 0, A: []*Term{a}})
}

func (ts *TermStore) And(a, b *Term) *Term {
	if a.IsFalse() || b.IsFalse() {
		return ts.False
	}
	if a.IsTrue() {
		return b
	}
	if b.IsTrue() {
		return a
	}
	if a == b {
		return a
	}
	return ts.mk(&Term{Op: OpAnd, W: 0, A: []*Term{a, b}})
}

func (ts *TermStore) Or(a, b *Term) *Term {
	if a.IsTrue() || b.IsTrue() {
		return ts.True
	}
	if a.IsFalse() {
		return b
	}
	if b.IsFalse() {
		return a
	}
	if a == b {
		return a
	}
	return ts.mk(&Term{Op: OpOr, W: 0, A: []*Term{a, b}})
}

func (ts *TermStore) Eq(a, b *Term) *Term {
	if a.W != b.W {
		panic(fmt.Sprintf("Eq width mismatch %d %d", a.W, b.W))
	}
	if a == b {
		return ts.True
	}
	if a.IsConst() && b.IsConst() {
		return ts.Bool(a.K == b.K)
	}
	if a.W == 0 {
		if a.IsConst() {
			a, b = b, a
		}
		if b.IsTrue() {
			return a
		}
		if b.IsFalse() {
			return ts.Not(a)
		}
	}
	// zext(x) == const
	if b.IsConst() && a.Op == OpZExt {
		x := a.A[0]
		if b.K > mask(x.W) {
			return ts.False
		}
		return ts.Eq(x, ts.Const(x.W, b.K))
	}
	if a.IsConst() && b.Op == OpZExt {
		return ts.Eq(b, a)
	}
	if a.IsConst() && !b.IsConst() {
		a, b = b, a
	}
	if b.IsConst() && a.W > 0 {
		switch a.Op {
		case OpAdd:
			// x + k2 == k  <=>  x == k - k2
			if a.A[1].IsConst() {
				return ts.Eq(a.A[0], ts.Const(a.W, b.K-a.A[1].K))
			}
			if a.A[0].IsConst() {
				return ts.Eq(a.A[1], ts.Const(a.W, b.K-a.A[0].K))
			}
		case OpIte:
			// push a comparison with a constant into an ite when both arms decide it
			ea := ts.Eq(a.A[1], b)
			eb := ts.Eq(a.A[2], b)
			if ea.IsConst() && eb.IsConst() {
				return ts.Ite(a.A[0], ea, eb)
			}
		}
	}
	if a.id > b.id {
		a, b = b, a
	}
	return ts.mk(&Term{Op: OpEq, W: 0, A: []*Term{a, b}})
}

func (ts *TermStore) Ite(c, a, b *Term) *Term {
	if a.W != b.W {
		panic(fmt.Sprintf("Ite width mismatch %d %d", a.W, b.W))
	}
	if c.IsTrue() {
		return a
	}
	if c.IsFalse() {
		return b
	}
	if a == b {
		return a
	}
	if a.W == 0 {
		if a.IsTrue() && b.IsFalse() {
			return c
		}
		if a.IsFalse() && b.IsTrue() {
			return ts.Not(c)
		}
	}
	return ts.mk(&Term{Op: OpIte, W: a.W, A: []*Term{c, a, b}})
}

func sdiv(a, b int64) int64 {
	if b == 0 {
		if a < 0 {
			return 1
		}
		return -1
	}
	if a == -1<<63 && b == -1 {
		return a
	}
	return a / b
}
func srem(a, b int64) int64 {
	if b == 0 {
		return a
	}
	if b == -1 {
		return 0
	}
	return a % b
}

// Bin builds a binary bit-vector operation with constant folding.
func (ts *TermStore) Bin(op Op, a, b *Term) *Term {
	if a.W != b.W || a.W == 0 {
		panic(fmt.Sprintf("Bin %v width mismatch %d %d", opNames[op], a.W, b.W))
	}
	w := a.W
	if a.IsConst() && b.IsConst() {
		x, y := a.K, b.K
		var r uint64
		switch op {
		case OpAdd:
			r = x + y
		case OpSub:
			r = x - y
		case OpMul:
			r = x * y
		case OpUDiv:
			if y == 0 {
				r = mask(w)
			} else {
				r = x / y
			}
		case OpURem:
			if y == 0 {
				r = x
			} else {
				r = x % y
			}
		case OpSDiv:
			r = uint64(sdiv(a.SInt(), b.SInt()))
		case OpSRem:
			r = uint64(srem(a.SInt(), b.SInt()))
		case OpBAnd:
			r = x & y
		case OpBOr:
			r = x | y
		case OpBXor:
			r = x ^ y
		case OpShl:
			if y >= uint64(w) {
				r = 0
			} else {
				r = x << y
			}
		case OpLShr:
			if y >= uint64(w) {
				r = 0
			} else {
				r = x >> y
			}
		case OpAShr:
			s := a.SInt()
			if y >= uint64(w) {
				if s < 0 {
					r = ^uint64(0)
				} else {
					r = 0
				}
			} else {
				r = uint64(s >> y)
			}
		default:
			panic("bad bin op")
		}
		return ts.Const(w, r)
	}
	// identities
	switch op {
	case OpAdd:
		if a.IsConst() && a.K == 0 {
			return b
		}
		if b.IsConst() && b.K == 0 {
			return a
		}
	case OpSub:
		if b.IsConst() && b.K == 0 {
			return a
		}
		if a == b {
			return ts.Const(w, 0)
		}
	case OpMul:
		if a.IsConst() && a.K == 1 {
			return b
		}
		if b.IsConst() && b.K == 1 {
			return a
		}
		if (a.IsConst() && a.K == 0) || (b.IsConst() && b.K == 0) {
			return ts.Const(w, 0)
		}
	case OpBAnd:
		if (a.IsConst() && a.K == 0) || (b.IsConst() && b.K == 0) {
			return ts.Const(w, 0)
		}
		if a.IsConst() && a.K == mask(w) {
			return b
		}
		if b.IsConst() && b.K == mask(w) {
			return a
		}
		if a == b {
			return a
		}
		// zext(x) & const where const covers x's bits
		if b.IsConst() && a.Op == OpZExt && b.K&mask(a.A[0].W) == mask(a.A[0].W) {
			return a
		}
	case OpBOr:
		if a.IsConst() && a.K == 0 {
			return b
		}
		if b.IsConst() && b.K == 0 {
			return a
		}
		if a == b {
			return a
		}
	case OpBXor:
		if a.IsConst() && a.K == 0 {
			return b
		}
		if b.IsConst() && b.K == 0 {
			return a
		}
		if a == b {
			return ts.Const(w, 0)
		}
	case OpShl, OpLShr, OpAShr:
		if b.IsConst() && b.K == 0 {
			return a
		}
		if a.IsConst() && a.K == 0 {
			return a
		}
		if b.IsConst() && b.K >= uint64(w) && op != OpAShr {
			return ts.Const(w, 0)
		}
		// lshr(zext(x), c) with c >= width(x) == 0
		if op == OpLShr && b.IsConst() && a.Op == OpZExt && b.K >= uint64(a.A[0].W) {
			return ts.Const(w, 0)
		}
	case OpUDiv:
		if b.IsConst() && b.K == 1 {
			return a
		}
	}
	return ts.mk(&Term{Op: op, W: w, A: []*Term{a, b}})
}

func (ts *TermStore) BNot(a *Term) *Term {
	if a.IsConst() {
		return ts.Const(a.W, ^a.K)
	}
	if a.Op == OpBNot {
		return a.A[0]
	}
	return ts.mk(&Term{Op: OpBNot, W: a.W, A: []*Term{a}})
}

func (ts *TermStore) Neg(a *Term) *Term {
	return ts.Bin(OpSub, ts.Const(a.W, 0), a)
}

// Cmp builds an unsigned/signed comparison.
func (ts *TermStore) Cmp(op Op, a, b *Term) *Term {
	if a.W != b.W || a.W == 0 {
		panic(fmt.Sprintf("Cmp width mismatch %d %d", a.W, b.W))
	}
	if a.IsConst() && b.IsConst() {
		switch op {
		case OpUlt:
			return ts.Bool(a.K < b.K)
		case OpUle:
			return ts.Bool(a.K <= b.K)
		case OpSlt:
			return ts.Bool(a.SInt() < b.SInt())
		case OpSle:
			return ts.Bool(a.SInt() <= b.SInt())
		}
	}
	if a == b {
		return ts.Bool(op == OpUle || op == OpSle)
	}
	switch op {
	case OpUlt:
		if b.IsConst() && b.K == 0 {
			return ts.False
		}
		// zext(x) < const with const > max(x)
		if b.IsConst() && a.Op == OpZExt && b.K > mask(a.A[0].W) {
			return ts.True
		}
	case OpUle:
		if a.IsConst() && a.K == 0 {
			return ts.True
		}
		if b.IsConst() && b.K == mask(b.W) {
			return ts.True
		}
		if b.IsConst() && a.Op == OpZExt && b.K >= mask(a.A[0].W) {
			return ts.True
		}
	case OpSlt:
		// zext(x) <s const where zext is non-negative
		if a.Op == OpZExt && a.Hi > 0 && b.IsConst() {
			if b.SInt() <= 0 {
				return ts.False
			}
			if uint64(b.SInt()) > mask(a.A[0].W) {
				return ts.True
			}
		}
		if b.Op == OpZExt && b.Hi > 0 && a.IsConst() && a.SInt() < 0 {
			return ts.True
		}
	case OpSle:
		if a.Op == OpZExt && a.Hi > 0 && b.IsConst() {
			if b.SInt() < 0 {
				return ts.False
			}
			if uint64(b.SInt()) >= mask(a.A[0].W) {
				return ts.True
			}
		}
		if b.Op == OpZExt && b.Hi > 0 && a.IsConst() && a.SInt() <= 0 {
			return ts.True
		}
	}
	return ts.mk(&Term{Op: op, W: 0, A: []*Term{a, b}})
}

func (ts *TermStore) Extract(hi, lo int, a *Term) *Term {
	if hi < lo || hi >= a.W {
		panic(fmt.Sprintf("bad extract [%d:%d] of width %d", hi, lo, a.W))
	}
	if lo == 0 && hi == a.W-1 {
		return a
	}
	w := hi - lo + 1
	if a.IsConst() {
		return ts.Const(w, a.K>>uint(lo))
	}
	switch a.Op {
	case OpExtract:
		return ts.Extract(hi+a.Lo, lo+a.Lo, a.A[0])
	case OpZExt:
		x := a.A[0]
		if hi < x.W {
			return ts.Extract(hi, lo, x)
		}
		if lo >= x.W {
			return ts.Const(w, 0)
		}
		return ts.ZExt(ts.Extract(x.W-1, lo, x), w)
	case OpSExt:
		x := a.A[0]
		if hi < x.W {
			return ts.Extract(hi, lo, x)
		}
	case OpConcat:
		h, l := a.A[0], a.A[1]
		if hi < l.W {
			return ts.Extract(hi, lo, l)
		}
		if lo >= l.W {
			return ts.Extract(hi-l.W, lo-l.W, h)
		}
	case OpLShr:
		if a.A[1].IsConst() {
			c := int(a.A[1].K)
			if hi+c < a.W {
				return ts.Extract(hi+c, lo+c, a.A[0])
			}
		}
	case OpShl:
		if a.A[1].IsConst() {
			c := int(a.A[1].K)
			if lo >= c {
				return ts.Extract(hi-c, lo-c, a.A[0])
			}
			if hi < c {
				return ts.Const(w, 0)
			}
		}
	case OpBAnd, OpBOr, OpBXor:
		// push extraction through bitwise ops when it helps constant-folding
		x := ts.Extract(hi, lo, a.A[0])
		y := ts.Extract(hi, lo, a.A[1])
		if x.IsConst() || y.IsConst() {
			return ts.Bin(a.Op, x, y)
		}
	case OpIte:
		x := ts.Extract(hi, lo, a.A[1])
		y := ts.Extract(hi, lo, a.A[2])
		if x.IsConst() && y.IsConst() {
			return ts.Ite(a.A[0], x, y)
		}
	}
	return ts.mk(&Term{Op: OpExtract, W: w, A: []*Term{a}, Hi: hi, Lo: lo})
}

// ZExt zero-extends a to width w.
func (ts *TermStore) ZExt(a *Term, w int) *Term {
	if w == a.W {
		return a
	}
	if w < a.W {
		return ts.Extract(w-1, 0, a)
	}
	if a.IsConst() {
		return ts.Const(w, a.K)
	}
	if a.Op == OpZExt {
		return ts.ZExt(a.A[0], w)
	}
	return ts.mk(&Term{Op: OpZExt, W: w, A: []*Term{a}, Hi: w - a.W})
}

// SExt sign-extends a to width w.
func (ts *TermStore) SExt(a *Term, w int) *Term {
	if w == a.W {
		return a
	}
	if w < a.W {
		return ts.Extract(w-1, 0, a)
	}
	if a.IsConst() {
		return ts.Const(w, uint64(a.SInt()))
	}
	if a.Op == OpZExt && a.Hi > 0 {
		return ts.ZExt(a.A[0], w)
	}
	return ts.mk(&Term{Op: OpSExt, W: w, A: []*Term{a}, Hi: w - a.W})
}

func (ts *TermStore) Concat(h, l *Term) *Term {
	w := h.W + l.W
	if w > 64 {
		panic("concat wider than 64")
	}
	if h.IsConst() && l.IsConst() {
		return ts.Const(w, h.K<<uint(l.W)|l.K)
	}
	if h.IsConst() && h.K == 0 {
		return ts.ZExt(l, w)
	}
	return ts.mk(&Term{Op: OpConcat, W: w, A: []*Term{h, l}})
}

// Implies a => b
func (ts *TermStore) Implies(a, b *Term) *Term { return ts.Or(ts.Not(a), b) }

func sortOf(w int) string {
	if w == 0 {
		return "Bool"
	}
	return "(_ BitVec " + strconv.Itoa(w) + ")"
}

func constStr(w int, k uint64) string {
	if w == 0 {
		if k != 0 {
			return "true"
		}
		return "false"
	}
	if w%4 == 0 {
		return fmt.Sprintf("#x%0*x", w/4, k)
	}
	return fmt.Sprintf("#b%0*b", w, k)
}

func smtName(n string) string {
	return "|" + strings.NewReplacer("|", "_", "\\", "_").Replace(n) + "|"
}

// Emitter prints terms for one solver process; large shared terms are emitted
// once as define-fun (global declarations survive pop).
type Emitter struct {
	declared map[*Term]bool // vars declared
	defined  map[*Term]string
	out      *strings.Builder
	n        int
}

func NewEmitter() *Emitter {
	return &Emitter{declared: map[*Term]bool{}, defined: map[*Term]string{}, out: &strings.Builder{}}
}

// ref returns the SMT-LIB text referring to t, writing any needed
// declarations/definitions to e.out first.
func (e *Emitter) ref(t *Term) string {
	switch t.Op {
	case OpConst:
		return constStr(t.W, t.K)
	case OpVar:
		if !e.declared[t] {
			e.declared[t] = true
			fmt.Fprintf(e.out, "(declare-const %s %s)\n", smtName(t.Name), sortOf(t.W))
		}
		return smtName(t.Name)
	}
	if d, ok := e.defined[t]; ok {
		return d
	}
	args := make([]string, len(t.A))
	for i, a := range t.A {
		args[i] = e.ref(a)
	}
	var s string
	switch t.Op {
	case OpExtract:
		s = fmt.Sprintf("((_ extract %d %d) %s)", t.Hi, t.Lo, args[0])
	case OpZExt:
		s = fmt.Sprintf("((_ zero_extend %d) %s)", t.Hi, args[0])
	case OpSExt:
		s = fmt.Sprintf("((_ sign_extend %d) %s)", t.Hi, args[0])
	default:
		s = "(" + opNames[t.Op] + " " + strings.Join(args, " ") + ")"
	}
	if t.size > 6 {
		e.n++
		name := "t!" + strconv.Itoa(e.n)
		fmt.Fprintf(e.out, "(define-fun %s () %s %s)\n", name, sortOf(t.W), s)
		e.defined[t] = name
		return name
	}
	return s
}

// Eval evaluates t under a model of variable values (missing vars = 0).
func (ts *TermStore) Eval(t *Term, m map[string]uint64, memo map[*Term]uint64) uint64 {
	if t.Op == OpConst {
		return t.K
	}
	if v, ok := memo[t]; ok {
		return v
	}
	var r uint64
	switch t.Op {
	case OpVar:
		r = m[t.Name] & mask(t.W)
		if t.W == 0 {
			r = m[t.Name] & 1
		}
	case OpIte:
		if ts.Eval(t.A[0], m, memo) != 0 {
			r = ts.Eval(t.A[1], m, memo)
		} else {
			r = ts.Eval(t.A[2], m, memo)
		}
	default:
		args := make([]*Term, len(t.A))
		for i, a := range t.A {
			args[i] = ts.Const(a.W, ts.Eval(a, m, memo))
		}
		var c *Term
		switch t.Op {
		case OpNot:
			c = ts.Not(args[0])
		case OpAnd:
			c = ts.And(args[0], args[1])
		case OpOr:
			c = ts.Or(args[0], args[1])
		case OpEq:
			c = ts.Eq(args[0], args[1])
		case OpBNot:
			c = ts.BNot(args[0])
		case OpUlt, OpUle, OpSlt, OpSle:
			c = ts.Cmp(t.Op, args[0], args[1])
		case OpExtract:
			c = ts.Extract(t.Hi, t.Lo, args[0])
		case OpZExt:
			c = ts.ZExt(args[0], t.W)
		case OpSExt:
			c = ts.SExt(args[0], t.W)
		case OpConcat:
			c = ts.Concat(args[0], args[1])
		default:
			c = ts.Bin(t.Op, args[0], args[1])
		}
		r = c.K
	}
	memo[t] = r
	return r
}

func (t *Term) String() string {
	switch t.Op {
	case OpConst:
		if t.W == 0 {
			return constStr(0, t.K)
		}
		return fmt.Sprintf("%d:%d", t.K, t.W)
	case OpVar:
		return t.Name
	}
	if t.size > 40 {
		return fmt.Sprintf("<term#%d w%d size%d>", t.id, t.W, t.size)
	}
	args := make([]string, len(t.A))
	for i, a := range t.A {
		args[i] = a.String()
	}
	switch t.Op {
	case OpExtract:
		return fmt.Sprintf("%s[%d:%d]", args[0], t.Hi, t.Lo)
	case OpZExt:
		return fmt.Sprintf("zx%d(%s)", t.W, args[0])
	case OpSExt:
		return fmt.Sprintf("sx%d(%s)", t.W, args[0])
	}
	return "(" + opNames[t.Op] + " " + strings.Join(args, " ") + ")"
}

var _ = bits.Len64
