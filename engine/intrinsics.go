package main

import (
	"fmt"
	"go/types"
	"math"
	"regexp"
	"strings"
	"time"

	"golang.org/x/tools/go/ssa"
)

type intrinsicFn func(e *Exec, fn *ssa.Function, args []Value) Value

var intrinsics map[string]func(e *Exec, fn *ssa.Function, args []Value) Value

func init() {
	intrinsics = map[string]func(e *Exec, fn *ssa.Function, args []Value) Value{
		// ----- harness API -----
		zzPath + ".NondetU8":    func(e *Exec, fn *ssa.Function, a []Value) Value { return e.nondet(a[0], 8) },
		zzPath + ".NondetU16":   func(e *Exec, fn *ssa.Function, a []Value) Value { return e.nondet(a[0], 16) },
		zzPath + ".NondetU32":   func(e *Exec, fn *ssa.Function, a []Value) Value { return e.nondet(a[0], 32) },
		zzPath + ".NondetU64":   func(e *Exec, fn *ssa.Function, a []Value) Value { return e.nondet(a[0], 64) },
		zzPath + ".NondetI64":   func(e *Exec, fn *ssa.Function, a []Value) Value { return e.nondet(a[0], 64) },
		zzPath + ".NondetInt":   func(e *Exec, fn *ssa.Function, a []Value) Value { return e.nondet(a[0], 64) },
		zzPath + ".NondetBool":  func(e *Exec, fn *ssa.Function, a []Value) Value { return e.nondet(a[0], 0) },
		zzPath + ".NondetBytes": inNondetBytes,
		zzPath + ".Choice":      inChoice,
		zzPath + ".Shard":       inShard,
		zzPath + ".Assume": func(e *Exec, fn *ssa.Function, a []Value) Value {
			e.assume(a[0].(*Term))
			return nil
		},
		zzPath + ".Assert": func(e *Exec, fn *ssa.Function, a []Value) Value {
			e.check2(a[0].(*Term), e.concStr(a[1], "assert label"), false)
			return nil
		},
		zzPath + ".Reach": func(e *Exec, fn *ssa.Function, a []Value) Value {
			l := e.concStr(a[0], "reach label")
			e.reached[l] = true
			e.ReachedAll[l] = true
			return nil
		},
		zzPath + ".Note": func(e *Exec, fn *ssa.Function, a []Value) Value {
			if s, ok := a[0].(*StrV); ok && s.Concrete() {
				e.notes = append(e.notes, s.S)
			}
			return nil
		},
		zzPath + ".Symbolic": func(e *Exec, fn *ssa.Function, a []Value) Value { return e.ts.True },
		zzPath + ".SetClock": func(e *Exec, fn *ssa.Function, a []Value) Value {
			e.envState["clock"] = a[0]
			return nil
		},
		zzPath + ".ClockStepMax": func(e *Exec, fn *ssa.Function, a []Value) Value {
			e.envState["clockstepmax"] = a[0]
			return nil
		},
		zzPath + ".ClockAuto": func(e *Exec, fn *ssa.Function, a []Value) Value {
			e.envState["clockauto"] = a[0]
			return nil
		},
		zzPath + ".ClockRead": func(e *Exec, fn *ssa.Function, a []Value) Value {
			cur, _ := e.envState["clock"].(*Term)
			if cur == nil {
				cur = e.ts.Const(64, 1700000000_000000000)
				e.envState["clock"] = cur
			}
			return cur
		},
		zzPath + ".ClockStep": func(e *Exec, fn *ssa.Function, a []Value) Value {
			cur, _ := e.envState["clock"].(*Term)
			if cur == nil {
				cur = e.ts.Const(64, 1700000000_000000000)
			}
			n := e.uniqueName("now")
			t := e.ts.Var(n, 64)
			e.nondets = append(e.nondets, nondetRec{Name: n, T: t})
			e.assume(e.ts.And(e.ts.Cmp(OpSlt, cur, t), e.ts.Cmp(OpSlt, t, e.ts.Const(64, 1<<62))))
			e.envState["clock"] = t
			return nil
		},
		zzPath + ".Seed": func(e *Exec, fn *ssa.Function, a []Value) Value { return e.ts.Const(64, e.cfg.Seed) },
		zzPath + ".Record": func(e *Exec, fn *ssa.Function, a []Value) Value {
			name := e.concStr(a[0], "record name")
			bs := e.sliceBytes(a[1].(SliceV))
			var sb strings.Builder
			for _, b := range bs {
				if !b.IsConst() {
					e.unsupported("selftest record %s is not concrete", name)
				}
				fmt.Fprintf(&sb, "%02x", b.K)
			}
			if e.Records == nil {
				e.Records = map[string]string{}
			}
			e.Records[name] = sb.String()
			return nil
		},
		zzPath + ".Crash": func(e *Exec, fn *ssa.Function, a []Value) Value { panic(crashSignal{}) },
		zzPath + ".Try": func(e *Exec, fn *ssa.Function, a []Value) (res Value) {
			savedCur, savedDepth := e.cur, e.depth
			res = e.ts.False
			defer func() {
				if r := recover(); r != nil {
					if _, ok := r.(crashSignal); ok {
						e.cur, e.depth = savedCur, savedDepth
						res = e.ts.True
						return
					}
					panic(r)
				}
			}()
			e.callValue(a[0], nil)
			return res
		},
		zzPath + ".NativeRepeat": func(e *Exec, fn *ssa.Function, a []Value) Value { return e.ts.Const(64, 1) },
		zzPath + ".Go":           inZZGo,
		zzPath + ".NativeWait":   func(e *Exec, fn *ssa.Function, a []Value) Value { return nil },
		zzPath + ".WaitThreads":  inZZWaitThreads,
		zzPath + ".Settle":       inZZSettle,
		zzPath + ".Yield":        inZZYield,
		"context.WithCancel": func(e *Exec, fn *ssa.Function, a []Value) Value {
			// the derived context is the parent itself; cancel is a no-op (the harness cancels the parent)
			return TupleV{a[0], &FuncV{Name: "cancel", Native: func(e *Exec, args []Value) Value { return nil }}}
		},
		"time.NewTicker": func(e *Exec, fn *ssa.Function, a []Value) Value {
			// a ticker that never fires within the explored window
			c := e.newCell(fn.Signature.Results().At(0).Type().(*types.Pointer).Elem())
			e.cellID++
			c.Fields[0].V = &ChanObj{T: c.Fields[0].Typ.Underlying().(*types.Chan), Cap: 1, id: e.cellID}
			return c
		},
		"time.NewTimer": func(e *Exec, fn *ssa.Function, a []Value) Value {
			// a timer that has already fired (sleeping is a no-op)
			c := e.newCell(fn.Signature.Results().At(0).Type().(*types.Pointer).Elem())
			e.cellID++
			ch := &ChanObj{T: c.Fields[0].Typ.Underlying().(*types.Chan), Cap: 1, id: e.cellID}
			if e.cfg.ThreadMode {
				// fires once another thread has been scheduled (see ChanObj.TimerArmed)
				ch.TimerArmed, ch.TimerAt = true, e.tstate().switches
			} else {
				ch.Buf = append(ch.Buf, mkTime(e, e.ts.Const(64, 0)))
			}
			c.Fields[0].V = ch
			return c
		},
		"(*time.Ticker).Stop": func(e *Exec, fn *ssa.Function, a []Value) Value { return nil },
		"(*time.Timer).Stop":  func(e *Exec, fn *ssa.Function, a []Value) Value { return e.ts.True },
		zzPath + ".IsConcrete": func(e *Exec, fn *ssa.Function, a []Value) Value {
			t, ok := a[0].(*Term)
			return e.ts.Bool(ok && t.IsConst())
		},

		zzPath + ".And":     func(e *Exec, fn *ssa.Function, a []Value) Value { return e.ts.And(a[0].(*Term), a[1].(*Term)) },
		zzPath + ".Or":      func(e *Exec, fn *ssa.Function, a []Value) Value { return e.ts.Or(a[0].(*Term), a[1].(*Term)) },
		zzPath + ".Not":     func(e *Exec, fn *ssa.Function, a []Value) Value { return e.ts.Not(a[0].(*Term)) },
		zzPath + ".Implies": func(e *Exec, fn *ssa.Function, a []Value) Value { return e.ts.Implies(a[0].(*Term), a[1].(*Term)) },
		zzPath + ".IteU64": func(e *Exec, fn *ssa.Function, a []Value) Value {
			return e.ts.Ite(a[0].(*Term), a[1].(*Term), a[2].(*Term))
		},

		zzPath + ".Param": func(e *Exec, fn *ssa.Function, a []Value) Value {
			// a bound of the harness that a tier may raise; recorded so that the native replay uses the same value
			name := e.concStr(a[0], "param name")
			v := e.concInt(a[1], "param default")
			if pv, ok := e.cfg.Params[name]; ok {
				v = int64(pv)
			}
			found := false
			for _, r := range e.nondets {
				found = found || r.Name == "param:"+name
			}
			if !found {
				e.nondets = append(e.nondets, nondetRec{Name: "param:" + name, IsCh: true, Val: uint64(v)})
			}
			return e.ts.Const(64, uint64(v))
		},
		zzPath + ".RetentionDaysRel": func(e *Exec, fn *ssa.Function, a []Value) Value { return FloatV{Opaque: true} },
		zzPath + ".RetentionDays":    func(e *Exec, fn *ssa.Function, a []Value) Value { return FloatV{Opaque: true} },
		"(" + repoMod + "/config.Sweeper).RetentionDuration": func(e *Exec, fn *ssa.Function, a []Value) Value {
			if t, ok := e.envState["retention"].(*Term); ok {
				return t
			}
			t := e.ts.Var("retention", 64)
			e.nondets = append(e.nondets, nondetRec{Name: "retention", T: t})
			e.envState["retention"] = t
			e.assume(e.ts.Cmp(OpSle, e.ts.Const(64, 0), t))
			return t
		},

		zzPath + ".Debug": func(e *Exec, fn *ssa.Function, a []Value) Value {
			if e.cfg.Trace {
				fmt.Printf("DEBUG %s: %s\n", e.describe(a[0]), e.deepDescribe(a[1], 0))
			}
			return nil
		},

		// ----- bytes / strings -----
		"bytes.Equal": func(e *Exec, fn *ssa.Function, a []Value) Value {
			return e.bytesEq(e.sliceBytes(a[0].(SliceV)), e.sliceBytes(a[1].(SliceV)))
		},
		"bytes.Compare": func(e *Exec, fn *ssa.Function, a []Value) Value {
			return e.bytesCompare(e.sliceBytes(a[0].(SliceV)), e.sliceBytes(a[1].(SliceV)))
		},
		"internal/bytealg.Compare": func(e *Exec, fn *ssa.Function, a []Value) Value {
			return e.bytesCompare(e.sliceBytes(a[0].(SliceV)), e.sliceBytes(a[1].(SliceV)))
		},
		"internal/bytealg.Equal": func(e *Exec, fn *ssa.Function, a []Value) Value {
			return e.bytesEq(e.sliceBytes(a[0].(SliceV)), e.sliceBytes(a[1].(SliceV)))
		},
		"internal/bytealg.IndexByte": func(e *Exec, fn *ssa.Function, a []Value) Value {
			return e.indexByte(e.sliceBytes(a[0].(SliceV)), a[1].(*Term))
		},
		"internal/bytealg.IndexByteString": func(e *Exec, fn *ssa.Function, a []Value) Value {
			return e.indexByte(e.strBytes(a[0].(*StrV)), a[1].(*Term))
		},
		"internal/bytealg.CountString": func(e *Exec, fn *ssa.Function, a []Value) Value {
			return e.countByte(e.strBytes(a[0].(*StrV)), a[1].(*Term))
		},
		"internal/bytealg.Count": func(e *Exec, fn *ssa.Function, a []Value) Value {
			return e.countByte(e.sliceBytes(a[0].(SliceV)), a[1].(*Term))
		},
		"internal/bytealg.MakeNoZero": func(e *Exec, fn *ssa.Function, a []Value) Value {
			n := int(e.concInt(a[0], "MakeNoZero"))
			return SliceV{Arr: e.newArray(types.Typ[types.Uint8], n), Len: n, Cap: n}
		},
		"internal/stringslite.Index": inStringsIndex,
		"strings.Index":              inStringsIndex,
		"internal/stringslite.IndexByte": func(e *Exec, fn *ssa.Function, a []Value) Value {
			return e.indexByte(e.strBytes(a[0].(*StrV)), a[1].(*Term))
		},
		"strings.IndexByte": func(e *Exec, fn *ssa.Function, a []Value) Value {
			return e.indexByte(e.strBytes(a[0].(*StrV)), a[1].(*Term))
		},
		"(*strings.Builder).WriteString": func(e *Exec, fn *ssa.Function, a []Value) Value {
			c := a[0].(*Cell).Fields[1]
			s := a[1].(*StrV)
			c.V = e.doAppend(c.V, s, types.NewSlice(types.Typ[types.Uint8]))
			return TupleV{e.ts.Const(64, uint64(s.Len())), IfaceV{}}
		},
		"(*strings.Builder).WriteByte": func(e *Exec, fn *ssa.Function, a []Value) Value {
			c := a[0].(*Cell).Fields[1]
			c.V = e.doAppend(c.V, e.newByteSlice([]*Term{a[1].(*Term)}, 1), types.NewSlice(types.Typ[types.Uint8]))
			return IfaceV{}
		},
		"(*strings.Builder).Write": func(e *Exec, fn *ssa.Function, a []Value) Value {
			c := a[0].(*Cell).Fields[1]
			s := a[1].(SliceV)
			c.V = e.doAppend(c.V, s, types.NewSlice(types.Typ[types.Uint8]))
			return TupleV{e.ts.Const(64, uint64(s.Len)), IfaceV{}}
		},
		"(*strings.Builder).String": func(e *Exec, fn *ssa.Function, a []Value) Value {
			c := a[0].(*Cell).Fields[1]
			return e.mkStr(e.sliceBytes(c.V.(SliceV)))
		},
		"(*strings.Builder).Len": func(e *Exec, fn *ssa.Function, a []Value) Value {
			c := a[0].(*Cell).Fields[1]
			return e.ts.Const(64, uint64(c.V.(SliceV).Len))
		},
		"(*strings.Builder).Grow":      func(e *Exec, fn *ssa.Function, a []Value) Value { return nil },
		"(*strings.Builder).Reset":     func(e *Exec, fn *ssa.Function, a []Value) Value { a[0].(*Cell).Fields[1].V = SliceV{}; return nil },
		"(*strings.Builder).copyCheck": func(e *Exec, fn *ssa.Function, a []Value) Value { return nil },

		"math/bits.Len64": func(e *Exec, fn *ssa.Function, a []Value) Value { return e.bitsLen(a[0].(*Term)) },
		"math/bits.Len32": func(e *Exec, fn *ssa.Function, a []Value) Value { return e.bitsLen(a[0].(*Term)) },
		"math/bits.Len":   func(e *Exec, fn *ssa.Function, a []Value) Value { return e.bitsLen(a[0].(*Term)) },

		repoMod + "/snapshot/gogosnapshot.sovSnapshot": func(e *Exec, fn *ssa.Function, a []Value) Value {
			return intrinsics["github.com/CrowdStrike/csproto.SizeOfVarint"](e, fn, a)
		},
		"github.com/CrowdStrike/csproto.SizeOfVarint": func(e *Exec, fn *ssa.Function, a []Value) Value {
			// summary of (bits.Len64(v|1)+6)/7, validated against the real body by selftest
			v := a[0].(*Term)
			res := e.ts.Const(64, 10)
			for n := 9; n >= 1; n-- {
				res = e.ts.Ite(e.ts.Cmp(OpUlt, v, e.ts.Const(64, uint64(1)<<uint(7*n))), e.ts.Const(64, uint64(n)), res)
			}
			return res
		},

		"math.Round": mathFn(math.Round), "math.Floor": mathFn(math.Floor), "math.Ceil": mathFn(math.Ceil),
		"math.Abs": mathFn(math.Abs), "math.Trunc": mathFn(math.Trunc), "math.Sqrt": mathFn(math.Sqrt),
		"math.Log": mathFn(math.Log), "math.Log2": mathFn(math.Log2), "math.Exp": mathFn(math.Exp),

		// ----- errors / fmt -----
		"errors.Is":   inErrorsIs,
		"fmt.Errorf":  inErrorf,
		"fmt.Sprintf": inSprintf,
		"fmt.Sprint": func(e *Exec, fn *ssa.Function, a []Value) Value {
			return &StrV{S: "<sprint>"}
		},
		"strconv.Itoa": func(e *Exec, fn *ssa.Function, a []Value) Value {
			t := a[0].(*Term)
			if !t.IsConst() {
				e.unsupported("strconv.Itoa of symbolic value")
			}
			return &StrV{S: fmt.Sprint(t.SInt())}
		},

		// ----- time -----
		"time.Now": inTimeNow,
		"time.Since": func(e *Exec, fn *ssa.Function, a []Value) Value {
			return e.ts.Bin(OpSub, timeExt(e, inTimeNow(e, fn, nil)), timeExt(e, a[0]))
		},
		"time.Until": func(e *Exec, fn *ssa.Function, a []Value) Value {
			return e.ts.Bin(OpSub, timeExt(e, a[0]), timeExt(e, inTimeNow(e, fn, nil)))
		},
		"time.Unix": inTimeUnix,
		"(time.Time).Sub": func(e *Exec, fn *ssa.Function, a []Value) Value {
			return e.ts.Bin(OpSub, timeExt(e, a[0]), timeExt(e, a[1]))
		},
		"(time.Time).Add": func(e *Exec, fn *ssa.Function, a []Value) Value {
			return mkTimeLoc(e, e.ts.Bin(OpAdd, timeExt(e, a[0]), a[1].(*Term)), timeLoc(e, a[0]))
		},
		"(time.Time).After": func(e *Exec, fn *ssa.Function, a []Value) Value {
			return e.ts.Cmp(OpSlt, timeExt(e, a[1]), timeExt(e, a[0]))
		},
		"(time.Time).Before": func(e *Exec, fn *ssa.Function, a []Value) Value {
			return e.ts.Cmp(OpSlt, timeExt(e, a[0]), timeExt(e, a[1]))
		},
		"(time.Time).Equal": func(e *Exec, fn *ssa.Function, a []Value) Value { return e.ts.Eq(timeExt(e, a[0]), timeExt(e, a[1])) },
		"(time.Time).Compare": func(e *Exec, fn *ssa.Function, a []Value) Value {
			x, y := timeExt(e, a[0]), timeExt(e, a[1])
			return e.ts.Ite(e.ts.Cmp(OpSlt, x, y), e.ts.Const(64, ^uint64(0)), e.ts.Ite(e.ts.Eq(x, y), e.ts.Const(64, 0), e.ts.Const(64, 1)))
		},
		"(time.Time).UnixNano": func(e *Exec, fn *ssa.Function, a []Value) Value { return timeExt(e, a[0]) },
		"(time.Time).Unix": func(e *Exec, fn *ssa.Function, a []Value) Value {
			// seconds since 1970: floor(ext / 1e9); decided for concrete instants and for symbolic
			// instants whose second is pinned by the path condition (concrete second + offset)
			ext := timeExt(e, a[0])
			ts := e.ts
			if ext.IsConst() {
				v := ext.SInt()
				q := v / 1000000000
				if v%1000000000 < 0 {
					q--
				}
				return ts.Const(64, uint64(q))
			}
			key := fmt.Sprintf("unix:%d", ext.id)
			if u, ok := e.envState[key].(*Term); ok {
				return u
			}
			// if the path condition pins the second (e.g. concrete second + symbolic offset),
			// return it as a constant: no multiplication reaches the solver
			if c, ok := e.uniqueSecond(ext); ok {
				u := ts.Const(64, uint64(c))
				e.envState[key] = u
				return u
			}
			// the general case needs ext = u*1e9 + r over 64 bits, which none of the three
			// solvers decides within minutes (probed): reported as unsupported rather than burnt
			e.unsupported("(time.Time).Unix of an instant whose second is not fixed by the path")
			var u *Term
			e.envState[key] = u
			return u
		},
		"(time.Time).IsZero": func(e *Exec, fn *ssa.Function, a []Value) Value { return e.ts.Eq(timeExt(e, a[0]), e.ts.Const(64, 0)) },
		"(time.Time).UTC":    func(e *Exec, fn *ssa.Function, a []Value) Value { return mkTime(e, timeExt(e, a[0])) },
		"(time.Time).Local":  func(e *Exec, fn *ssa.Function, a []Value) Value { return mkLocalTime(e, timeExt(e, a[0])) },
		"(time.Time).AppendFormat": func(e *Exec, fn *ssa.Function, a []Value) Value {
			str := inTimeFormat(e, fn, []Value{a[0], a[2]})
			return e.doAppend(a[1], str, fn.Signature.Params().At(0).Type())
		},
		zzPath + ".LocalZone": func(e *Exec, fn *ssa.Function, a []Value) Value {
			t := e.ts.Var("tz.offset", 64)
			e.nondets = append(e.nondets, nondetRec{Name: "tz.offset", T: t})
			e.envState["tzoffset"] = t
			e.assume(e.ts.And(e.ts.Cmp(OpSle, e.ts.Const(64, uint64(0xffffffffffffffff-12*3600+1)), t), e.ts.Cmp(OpSle, t, e.ts.Const(64, 14*3600))))
			return nil
		},
		"(time.Time).Round":    func(e *Exec, fn *ssa.Function, a []Value) Value { return a[0] },
		"(time.Time).Truncate": func(e *Exec, fn *ssa.Function, a []Value) Value { return a[0] },
		"(time.Time).Format":   inTimeFormat,
		"time.Parse":           inTimeParse,
		"regexp.MustCompile": func(e *Exec, fn *ssa.Function, a []Value) Value {
			// the compiled expression is opaque; its (concrete) pattern is remembered
			return &OpaqueV{T: fn.Signature.Results().At(0).Type(), Note: "regexp:" + e.concStr(a[0], "regexp pattern")}
		},
		"(*regexp.Regexp).ReplaceAllString": func(e *Exec, fn *ssa.Function, a []Value) Value {
			// evaluated by the real regexp package on concrete strings (the automaton is not encoded)
			re, ok0 := a[0].(*OpaqueV)
			src, ok := a[1].(*StrV)
			repl, ok2 := a[2].(*StrV)
			if !ok0 || !strings.HasPrefix(re.Note, "regexp:") || !ok || !ok2 || !src.Concrete() || !repl.Concrete() {
				e.unsupported("regexp on symbolic string or unknown expression")
			}
			return &StrV{S: regexp.MustCompile(strings.TrimPrefix(re.Note, "regexp:")).ReplaceAllString(src.S, repl.S)}
		},
		"(time.Time).String":       func(e *Exec, fn *ssa.Function, a []Value) Value { return &StrV{S: "<time>"} },
		"(time.Duration).Round":    func(e *Exec, fn *ssa.Function, a []Value) Value { return a[0] },
		"(time.Duration).Truncate": func(e *Exec, fn *ssa.Function, a []Value) Value { return a[0] },
		"(time.Duration).String":   func(e *Exec, fn *ssa.Function, a []Value) Value { return &StrV{S: "<duration>"} },
		"(time.Duration).Seconds": func(e *Exec, fn *ssa.Function, a []Value) Value {
			t := a[0].(*Term)
			if t.IsConst() {
				return FloatV{F: float64(t.SInt()) / 1e9}
			}
			return FloatV{Opaque: true}
		},
		"(time.Duration).Milliseconds": func(e *Exec, fn *ssa.Function, a []Value) Value {
			return e.ts.Bin(OpSDiv, a[0].(*Term), e.ts.Const(64, 1000000))
		},
	}
}

func mathFn(f func(float64) float64) func(e *Exec, fn *ssa.Function, a []Value) Value {
	return func(e *Exec, fn *ssa.Function, a []Value) Value {
		x := a[0].(FloatV)
		if x.Opaque {
			return x
		}
		return FloatV{F: f(x.F)}
	}
}

// ---------- harness API ----------

func (e *Exec) concStr(v Value, what string) string {
	s, ok := v.(*StrV)
	if !ok || !s.Concrete() {
		e.unsupported("%s must be a concrete string", what)
	}
	return s.S
}

func (e *Exec) uniqueName(base string) string {
	n := e.nondetCount[base]
	e.nondetCount[base] = n + 1
	if n == 0 {
		return base
	}
	return fmt.Sprintf("%s#%d", base, n)
}

func (e *Exec) nondet(nameV Value, w int) Value {
	name := e.uniqueName(e.concStr(nameV, "nondet name"))
	t := e.ts.Var(name, w)
	e.nondets = append(e.nondets, nondetRec{Name: name, T: t})
	return t
}

func inNondetBytes(e *Exec, fn *ssa.Function, a []Value) Value {
	name := e.uniqueName(e.concStr(a[0], "nondet name"))
	n := int(e.concInt(a[1], "NondetBytes length"))
	bs := make([]*Term, n)
	for i := range bs {
		vn := fmt.Sprintf("%s[%d]", name, i)
		bs[i] = e.ts.Var(vn, 8)
		e.nondets = append(e.nondets, nondetRec{Name: vn, T: bs[i]})
	}
	if n == 0 {
		// non-nil empty slice
		return SliceV{Arr: e.newArray(types.Typ[types.Uint8], 0)}
	}
	arr := e.newArray(types.Typ[types.Uint8], n)
	for i, b := range bs {
		e.at(arr, i).V = b
	}
	return SliceV{Arr: arr, Len: n, Cap: n}
}

func inChoice(e *Exec, fn *ssa.Function, a []Value) Value {
	name := e.uniqueName(e.concStr(a[0], "choice name"))
	n := int(e.concInt(a[1], "choice arity"))
	if n <= 0 {
		e.abort("infeasible", "choice of 0")
	}
	vals := make([]uint64, n)
	cons := make([]*Term, n)
	for i := range vals {
		vals[i] = uint64(i)
		cons[i] = e.ts.True
	}
	v := e.choose("choice:"+name, vals, cons)
	e.nondets = append(e.nondets, nondetRec{Name: name, IsCh: true, Val: v})
	return e.ts.Const(64, v)
}

func inShard(e *Exec, fn *ssa.Function, a []Value) Value {
	n := int(e.concInt(a[0], "shard count"))
	if e.cfg.NShards <= 1 {
		// unsharded run: explore all
		vals := make([]uint64, n)
		cons := make([]*Term, n)
		for i := range vals {
			vals[i] = uint64(i)
			cons[i] = e.ts.True
		}
		v := e.choose("shard", vals, cons)
		e.nondets = append(e.nondets, nondetRec{Name: "shard", IsCh: true, Val: v})
		return e.ts.Const(64, v)
	}
	// this worker handles residues shard, shard+NShards, ...
	var vals []uint64
	var cons []*Term
	for i := e.cfg.Shard; i < n; i += e.cfg.NShards {
		vals = append(vals, uint64(i))
		cons = append(cons, e.ts.True)
	}
	if len(vals) == 0 {
		e.abort("infeasible", "no shard for this worker")
	}
	v := e.choose("shard", vals, cons)
	e.nondets = append(e.nondets, nondetRec{Name: "shard", IsCh: true, Val: v})
	return e.ts.Const(64, v)
}

// ---------- bytes helpers ----------

func (e *Exec) indexByte(bs []*Term, c *Term) Value {
	ts := e.ts
	res := ts.Const(64, ^uint64(0))
	for i := len(bs) - 1; i >= 0; i-- {
		res = ts.Ite(ts.Eq(bs[i], c), ts.Const(64, uint64(i)), res)
	}
	return res
}

func (e *Exec) countByte(bs []*Term, c *Term) Value {
	ts := e.ts
	res := ts.Const(64, 0)
	for i := range bs {
		res = ts.Bin(OpAdd, res, ts.Ite(ts.Eq(bs[i], c), ts.Const(64, 1), ts.Const(64, 0)))
	}
	return res
}

func inStringsIndex(e *Exec, fn *ssa.Function, a []Value) Value {
	s, sub := a[0].(*StrV), a[1].(*StrV)
	ts := e.ts
	if s.Concrete() && sub.Concrete() {
		return ts.Const(64, uint64(int64(strings.Index(s.S, sub.S))))
	}
	sb, ub := e.strBytes(s), e.strBytes(sub)
	res := ts.Const(64, ^uint64(0))
	for i := len(sb) - len(ub); i >= 0; i-- {
		res = ts.Ite(e.bytesEq(sb[i:i+len(ub)], ub), ts.Const(64, uint64(i)), res)
	}
	return res
}

func (e *Exec) bitsLen(x *Term) Value {
	ts := e.ts
	if x.IsConst() {
		n := 0
		for v := x.K; v != 0; v >>= 1 {
			n++
		}
		return ts.Const(64, uint64(n))
	}
	res := ts.Const(64, 0)
	for i := 0; i < x.W; i++ {
		// if bit i is the highest set bit → i+1 ; build from low to high so higher wins
		bit := ts.Eq(ts.Extract(i, i, x), ts.Const(1, 1))
		res = ts.Ite(bit, ts.Const(64, uint64(i+1)), res)
	}
	return res
}

// ---------- errors / fmt ----------

func (e *Exec) stubErrorType() (types.Type, *types.Struct) {
	if t, ok := e.typeByNm["StubError"]; ok {
		return types.NewPointer(t), t.Underlying().(*types.Struct)
	}
	var pkg *ssa.Package
	for _, p := range e.prog.AllPackages() {
		if p.Pkg.Path() == zzPath {
			pkg = p
		}
	}
	if pkg == nil {
		e.unsupported("zzverif package not loaded (StubError)")
	}
	t := pkg.Type("StubError").Type()
	if e.typeByNm == nil {
		e.typeByNm = map[string]types.Type{}
	}
	e.typeByNm["StubError"] = t
	return types.NewPointer(t), t.Underlying().(*types.Struct)
}

func (e *Exec) newStubError(msg string, wrapped Value) Value {
	pt, _ := e.stubErrorType()
	c := e.newCell(pt.(*types.Pointer).Elem())
	c.Fields[0].V = &StrV{S: msg}
	if wrapped != nil {
		c.Fields[1].V = wrapped
	}
	return IfaceV{T: pt, V: c}
}

func (e *Exec) variadicArgs(v Value) []Value {
	s, ok := v.(SliceV)
	if !ok || s.Arr == nil {
		return nil
	}
	out := make([]Value, s.Len)
	for i := 0; i < s.Len; i++ {
		if c := s.Arr.peek(s.Off + i); c != nil {
			out[i] = e.load(c)
		} else {
			out[i] = IfaceV{}
		}
	}
	return out
}

func inErrorf(e *Exec, fn *ssa.Function, a []Value) Value {
	format := "<errorf>"
	if s, ok := a[0].(*StrV); ok && s.Concrete() {
		format = s.S
	}
	var wrapped Value
	if strings.Contains(format, "%w") {
		errI := types.Universe.Lookup("error").Type().Underlying().(*types.Interface)
		for _, av := range e.variadicArgs(a[1]) {
			if iv, ok := av.(IfaceV); ok && iv.T != nil && iv.T != opaqueType && types.Implements(iv.T, errI) {
				wrapped = iv
				break
			}
		}
	}
	return e.newStubError(format, wrapped)
}

func (e *Exec) nativeArg(v Value) (interface{}, bool) {
	switch x := v.(type) {
	case IfaceV:
		if x.T == nil {
			return nil, true
		}
		if x.T == opaqueType {
			return "<opaque>", true
		}
		_, signed, isInt := intWidth(x.T)
		if t, ok := x.V.(*Term); ok && isInt {
			if !t.IsConst() {
				return nil, false
			}
			if t.W == 0 {
				return t.K != 0, true
			}
			if signed {
				return t.SInt(), true
			}
			return t.K, true
		}
		if s, ok := x.V.(*StrV); ok {
			if s.Concrete() {
				return s.S, true
			}
			return nil, false
		}
		return "<" + x.T.String() + ">", true
	}
	return nil, false
}

func inSprintf(e *Exec, fn *ssa.Function, a []Value) Value {
	f, ok := a[0].(*StrV)
	if !ok || !f.Concrete() {
		return &StrV{S: "<sprintf>"}
	}
	var nat []interface{}
	for _, av := range e.variadicArgs(a[1]) {
		n, ok := e.nativeArg(av)
		if !ok {
			// symbolic argument: keep symbolic strings for the simple %s case
			return e.symSprintf(f.S, e.variadicArgs(a[1]))
		}
		nat = append(nat, n)
	}
	return &StrV{S: fmt.Sprintf(f.S, nat...)}
}

// symSprintf supports only %s/%d(concrete)/%v with string arguments that may be symbolic.
func (e *Exec) symSprintf(format string, args []Value) Value {
	var out []*Term
	ai := 0
	for i := 0; i < len(format); i++ {
		if format[i] != '%' || i+1 >= len(format) {
			out = append(out, e.ts.Const(8, uint64(format[i])))
			continue
		}
		i++
		if format[i] == '%' {
			out = append(out, e.ts.Const(8, '%'))
			continue
		}
		if ai >= len(args) {
			return &StrV{S: "<sprintf>"}
		}
		iv, _ := args[ai].(IfaceV)
		ai++
		switch v := iv.V.(type) {
		case *StrV:
			out = append(out, e.strBytes(v)...)
		case *Term:
			if !v.IsConst() {
				return &StrV{S: "<sprintf>"}
			}
			n, _ := e.nativeArg(iv)
			for _, ch := range []byte(fmt.Sprintf("%"+string(format[i]), n)) {
				out = append(out, e.ts.Const(8, uint64(ch)))
			}
		default:
			return &StrV{S: "<sprintf>"}
		}
	}
	return e.mkStr(out)
}

func inErrorsIs(e *Exec, fn *ssa.Function, a []Value) Value {
	err, _ := a[0].(IfaceV)
	target, _ := a[1].(IfaceV)
	for depth := 0; depth < 20; depth++ {
		if err.T == nil {
			return e.ts.Bool(target.T == nil)
		}
		if err.T == opaqueType {
			return e.ts.False
		}
		eq := e.valuesEqual(err, target)
		if !eq.IsConst() {
			e.unsupported("errors.Is with symbolic comparison")
		}
		if eq.IsTrue() {
			return e.ts.True
		}
		// Unwrap() error
		ms := e.prog.MethodSets.MethodSet(err.T)
		var unwrap *ssa.Function
		for i := 0; i < ms.Len(); i++ {
			sel := ms.At(i)
			if sel.Obj().Name() == "Unwrap" {
				sig := sel.Type().(*types.Signature)
				if sig.Params().Len() == 0 && sig.Results().Len() == 1 && isErrorType(sig.Results().At(0).Type()) {
					unwrap = e.prog.MethodValue(sel)
				}
			}
		}
		if unwrap == nil {
			return e.ts.False
		}
		r := e.call(unwrap, []Value{err.V}, nil)
		nv, ok := r.(IfaceV)
		if !ok {
			return e.ts.False
		}
		err = nv
	}
	return e.ts.False
}

// ---------- time model ----------
// A modelled time.Time is the struct {wall:0, ext:<ns since 1970>, loc:nil}.

// uniqueSecond reports the second of ext if the path condition leaves only one (signed ext >= 0).
func (e *Exec) uniqueSecond(ext *Term) (int64, bool) {
	ts := e.ts
	probe := ts.Var(e.uniqueName("unix.probe"), 64)
	e.sol.Push()
	e.sol.Assert(ts.Eq(probe, ext))
	ok := false
	var sec int64
	if e.sol.Check() == Sat {
		if m := e.sol.Values([]*Term{probe}); m != nil {
			v := int64(m[probe.Name])
			if v >= 0 {
				sec = v / 1000000000
				lo, hi := ts.Const(64, uint64(sec*1000000000)), ts.Const(64, uint64((sec+1)*1000000000))
				e.sol.Push()
				e.sol.Assert(ts.Or(ts.Cmp(OpSlt, ext, lo), ts.Cmp(OpSle, hi, ext)))
				ok = e.sol.Check() == Unsat
				e.sol.Pop(1)
			}
		}
	}
	e.sol.Pop(1)
	return sec, ok
}

func mkTime(e *Exec, ext *Term) Value {
	return &StructV{F: []Value{e.ts.Const(64, 0), ext, NilPtr{}}}
}

// Zones: loc == nil is UTC. After zz.LocalZone() the process's local zone has an arbitrary
// fixed offset ("tz.offset" seconds) and time.Now / time.Unix / Local() return times in it
// (loc == localLoc); Format renders such a time shifted by the offset, as the real package does.
var localLoc = &OpaqueV{Note: "loc:local"}

func mkTimeLoc(e *Exec, ext *Term, loc Value) Value {
	return &StructV{F: []Value{e.ts.Const(64, 0), ext, loc}}
}

func timeLoc(e *Exec, v Value) Value {
	switch s := v.(type) {
	case *StructV:
		return s.F[2]
	case *Cell:
		if s != nil && s.Fields != nil {
			return s.Fields[2].V
		}
	}
	return NilPtr{}
}

func isLocalLoc(v Value) bool { o, ok := v.(*OpaqueV); return ok && o == localLoc }

// mkLocalTime: a time as returned by time.Now/time.Unix: in the local zone.
func mkLocalTime(e *Exec, ext *Term) Value {
	if _, ok := e.envState["tzoffset"].(*Term); ok {
		return mkTimeLoc(e, ext, localLoc)
	}
	return mkTime(e, ext)
}

// wallExt: the instant whose UTC rendering equals the zone rendering of v.
func wallExt(e *Exec, v Value) *Term {
	ext := timeExt(e, v)
	if off, ok := e.envState["tzoffset"].(*Term); ok && isLocalLoc(timeLoc(e, v)) {
		return e.ts.Bin(OpAdd, ext, e.ts.Bin(OpMul, off, e.ts.Const(64, 1000000000)))
	}
	return ext
}

func timeExt(e *Exec, v Value) *Term {
	switch s := v.(type) {
	case *StructV:
		if t, ok := s.F[1].(*Term); ok {
			return t
		}
	case *Cell:
		if s != nil && s.Fields != nil {
			return s.Fields[1].V.(*Term)
		}
	}
	e.unsupported("time value of kind %T", v)
	return nil
}

func inTimeNow(e *Exec, fn *ssa.Function, a []Value) Value {
	ts := e.ts
	cur, _ := e.envState["clock"].(*Term)
	if cur == nil {
		cur = ts.Const(64, 1700000000_000000000)
		e.envState["clock"] = cur
	}
	if auto, ok := e.envState["clockauto"].(*Term); ok && auto.IsTrue() {
		n := e.uniqueName("now")
		t := ts.Var(n, 64)
		e.nondets = append(e.nondets, nondetRec{Name: n, T: t})
		c := ts.And(ts.Cmp(OpSle, cur, t), ts.Cmp(OpSlt, t, ts.Const(64, 1<<62)))
		if mx, ok := e.envState["clockstepmax"].(*Term); ok {
			// every reading is at most mx nanoseconds after the previous one
			c = ts.And(c, ts.Cmp(OpSle, ts.Bin(OpSub, t, cur), mx))
		}
		e.assume(c)
		e.envState["clock"] = t
		cur = t
	}
	return mkLocalTime(e, cur)
}

func inTimeUnix(e *Exec, fn *ssa.Function, a []Value) Value {
	ts := e.ts
	sec, nsec := a[0].(*Term), a[1].(*Term)
	return mkLocalTime(e, ts.Bin(OpAdd, ts.Bin(OpMul, sec, ts.Const(64, 1000000000)), nsec))
}

func (e *Exec) deepDescribe(v Value, depth int) string {
	if depth > 6 {
		return "..."
	}
	switch x := v.(type) {
	case nil:
		return "nil"
	case *Term:
		return x.String()
	case *StrV:
		if x.Concrete() {
			return fmt.Sprintf("%q", x.S)
		}
		return "<symbolic string>"
	case IfaceV:
		if x.T == nil {
			return "nil-iface"
		}
		return x.T.String() + "{" + e.deepDescribe(x.V, depth+1) + "}"
	case *Cell:
		if x == nil {
			return "nil-ptr"
		}
		return "&" + e.deepDescribe(e.load(x), depth+1)
	case *StructV:
		var parts []string
		for _, f := range x.F {
			parts = append(parts, e.deepDescribe(f, depth+1))
		}
		return "{" + strings.Join(parts, ", ") + "}"
	case SliceV:
		if x.Arr == nil {
			return "nil-slice"
		}
		var parts []string
		for i := 0; i < x.Len && i < 40; i++ {
			if c := x.Arr.peek(x.Off + i); c != nil {
				parts = append(parts, e.deepDescribe(e.load(c), depth+1))
			} else {
				parts = append(parts, "0")
			}
		}
		return "[" + strings.Join(parts, " ") + "]"
	case NilPtr:
		return "nil"
	}
	return fmt.Sprintf("%T", v)
}

// Format: concrete instants are formatted by the real time package; a symbolic instant
// with the snapshot-name layout becomes a fixed-width, order-preserving, invertible
// digit string (16 hex nibbles of the nanosecond count in the digit positions) - the
// three properties of time.Format that the repository relies on (stated in C15).
const nameLayout = "20060102-150405.000000000"

func inTimeFormat(e *Exec, fn *ssa.Function, a []Value) Value {
	ext := wallExt(e, a[0])
	layout := e.concStr(a[1], "time layout")
	if ext.IsConst() {
		return &StrV{S: time.Unix(0, ext.SInt()).UTC().Format(layout)}
	}
	if layout != nameLayout {
		return &StrV{S: "<time>"}
	}
	ts := e.ts
	out := make([]*Term, 0, len(layout))
	nib := 15
	for i := 0; i < len(layout); i++ {
		c := layout[i]
		if c == '-' || c == '.' {
			out = append(out, ts.Const(8, uint64(c)))
			continue
		}
		if nib < 0 {
			out = append(out, ts.Const(8, '0'))
			continue
		}
		n := ts.ZExt(ts.Extract(nib*4+3, nib*4, ext), 8)
		ch := ts.Ite(ts.Cmp(OpUlt, n, ts.Const(8, 10)), ts.Bin(OpAdd, n, ts.Const(8, '0')), ts.Bin(OpAdd, n, ts.Const(8, 'a'-10)))
		out = append(out, ch)
		nib--
	}
	// remember the digit string so that Parse of exactly these digits returns ext itself
	if e.fmtCache == nil {
		e.fmtCache = map[string]*Term{}
	}
	e.fmtCache[digitKey(out, layout)] = ext
	return e.mkStr(out)
}

func digitKey(bs []*Term, layout string) string {
	var sb strings.Builder
	n := 0
	for i := 0; i < len(layout) && n < 16; i++ {
		if layout[i] == '-' || layout[i] == '.' {
			continue
		}
		fmt.Fprintf(&sb, "%d,", bs[i].id)
		n++
	}
	return sb.String()
}

func inTimeParse(e *Exec, fn *ssa.Function, a []Value) Value {
	layout := e.concStr(a[0], "time layout")
	s := a[1].(*StrV)
	if s.Concrete() {
		t, err := time.Parse(layout, s.S)
		if err != nil {
			return TupleV{mkTime(e, e.ts.Const(64, 0)), e.newStubError("time parse error", nil)}
		}
		return TupleV{mkTime(e, e.ts.Const(64, uint64(t.UnixNano()))), IfaceV{}}
	}
	if layout != nameLayout || s.Len() != len(layout) {
		e.unsupported("time.Parse of symbolic string with layout %q", layout)
	}
	ts := e.ts
	bs := e.strBytes(s)
	if ext, ok := e.fmtCache[digitKey(bs, layout)]; ok {
		// exactly the digits produced by Format for ext (separators are checked below)
		sepOK := ts.True
		for i := 0; i < len(layout); i++ {
			if c := layout[i]; c == '-' || c == '.' {
				sepOK = ts.And(sepOK, ts.Eq(bs[i], ts.Const(8, uint64(c))))
			}
		}
		rest := ts.True
		nd := 0
		for i := 0; i < len(layout); i++ {
			if c := layout[i]; c != '-' && c != '.' {
				nd++
				if nd > 16 {
					rest = ts.And(rest, ts.Eq(bs[i], ts.Const(8, '0')))
				}
			}
		}
		if sepOK.IsTrue() && rest.IsTrue() {
			return TupleV{mkTime(e, ext), IfaceV{}}
		}
	}
	var ext *Term = ts.Const(64, 0)
	nib := 15
	valid := ts.True
	for i := 0; i < len(layout) && nib >= 0; i++ {
		c := layout[i]
		if c == '-' || c == '.' {
			valid = ts.And(valid, ts.Eq(bs[i], ts.Const(8, uint64(c))))
			continue
		}
		b := bs[i]
		isDig := ts.And(ts.Cmp(OpUle, ts.Const(8, '0'), b), ts.Cmp(OpUle, b, ts.Const(8, '9')))
		isHex := ts.And(ts.Cmp(OpUle, ts.Const(8, 'a'), b), ts.Cmp(OpUle, b, ts.Const(8, 'f')))
		valid = ts.And(valid, ts.Or(isDig, isHex))
		v := ts.Ite(isDig, ts.Bin(OpSub, b, ts.Const(8, '0')), ts.Bin(OpSub, b, ts.Const(8, 'a'-10)))
		ext = ts.Bin(OpBOr, ext, ts.Bin(OpShl, ts.ZExt(v, 64), ts.Const(64, uint64(nib*4))))
		nib--
	}
	if e.branch(valid) {
		return TupleV{mkTime(e, ext), IfaceV{}}
	}
	return TupleV{mkTime(e, e.ts.Const(64, 0)), e.newStubError("time parse error", nil)}
}

type crashSignal struct{}
