package main

import (
	"strings"

	"golang.org/x/tools/go/ssa"
)

// sync/atomic: every operation is executed atomically on the addressed cell and, in thread
// mode, is a synchronisation point (any runnable thread may run before it). Package-level
// functions (LoadUint32, StoreInt64, AddInt32, SwapUint32, CompareAndSwapUint32, ...) address
// a[0]; the methods of the typed values (Int32, Int64, Uint32, Uint64, Bool, Uintptr) address
// the last field of the receiver struct.
func atomicAction(fn *ssa.Function) *fnAction {
	key := fnKey(fn)
	name := fn.Name()
	method := fn.Signature.Recv() != nil
	var op string
	for _, p := range []string{"CompareAndSwap", "Load", "Store", "Swap", "Add", "And", "Or"} {
		if strings.HasPrefix(name, p) {
			op = p
			break
		}
	}
	if op == "" || strings.Contains(key, "Pointer") || strings.Contains(key, "Value") {
		return nil
	}
	in := func(e *Exec, fn *ssa.Function, a []Value) Value {
		c, ok := a[0].(*Cell)
		if !ok || c == nil {
			e.goPanic("atomic operation on nil pointer")
		}
		if method {
			if c.Fields == nil {
				e.unsupported("atomic method on non-struct cell")
			}
			c = c.Fields[len(c.Fields)-1]
		}
		if e.cfg.ThreadMode {
			e.syncPoint("atomic " + name)
		}
		ts := e.ts
		switch op {
		case "Load":
			return e.load(c)
		case "Store":
			e.store(c, a[1])
			return nil
		case "Swap":
			old := e.load(c)
			e.store(c, a[1])
			return old
		case "Add":
			nv := ts.Bin(OpAdd, e.load(c).(*Term), a[1].(*Term))
			e.store(c, nv)
			return nv
		case "And":
			old := e.load(c).(*Term)
			e.store(c, ts.Bin(OpBAnd, old, a[1].(*Term)))
			return old
		case "Or":
			old := e.load(c).(*Term)
			e.store(c, ts.Bin(OpBOr, old, a[1].(*Term)))
			return old
		case "CompareAndSwap":
			old := e.load(c).(*Term)
			eq := ts.Eq(old, a[1].(*Term))
			if e.branch(eq) {
				e.store(c, a[2])
				return ts.True
			}
			return ts.False
		}
		return nil
	}
	return &fnAction{kind: actIntrinsic, name: key, intrinsic: in}
}
