package main

import (
	"fmt"
	"go/types"
	"runtime"
	"strings"

	"golang.org/x/tools/go/ssa"
)

func runtimeStack(buf []byte) int { return runtime.Stack(buf, false) }

// Thread mode: cooperative threads inside one symbolic path. Every `go`
// statement (and zz.Go) creates a thread with its own call stack; a thread runs
// until a synchronisation operation (mutex, channel, select, zz.Yield), where the
// choice "which runnable thread continues" is a decision of the path (so all
// interleavings at synchronisation granularity are explored, bounded by
// MaxSwitches preemptions). A state with an unfinished thread and no runnable
// thread is a deadlock. Data races are NOT detected.

type thread struct {
	id      int
	name    string
	wake    chan struct{}
	done    bool
	cond    func() bool // nil = runnable
	what    string
	saveCur *frame
	saveDep int
	started bool
}

type threadState struct {
	threads  []*thread
	cur      *thread
	killed   bool
	abort    *pathEnd
	switches int
	mutexes  map[*Cell]*mutexState
}

type mutexState struct {
	writer  bool
	readers int
}

type killedThread struct{}

func (e *Exec) tstate() *threadState {
	if e.threads == nil {
		main := &thread{id: 0, name: "main", wake: make(chan struct{}, 1), started: true}
		e.threads = &threadState{threads: []*thread{main}, cur: main, mutexes: map[*Cell]*mutexState{}}
	}
	return e.threads
}

// killThreads releases every parked thread goroutine at the end of a path.
func (e *Exec) killThreads() {
	ts := e.threads
	if ts == nil {
		return
	}
	ts.killed = true
	for _, t := range ts.threads[1:] {
		if !t.done {
			select {
			case t.wake <- struct{}{}:
			default:
			}
		}
	}
	e.threads = nil
}

func (e *Exec) spawn(name string, run func()) {
	ts := e.tstate()
	t := &thread{id: len(ts.threads), name: name, wake: make(chan struct{}, 1)}
	ts.threads = append(ts.threads, t)
	go func() {
		<-t.wake
		if ts.killed {
			return
		}
		t.started = true
		defer func() {
			r := recover()
			t.done = true
			if r != nil {
				if _, ok := r.(killedThread); ok {
					return
				}
				pe, ok := r.(pathEnd)
				if !ok {
					pe = pathEnd{kind: "unsupported", msg: fmt.Sprintf("engine panic in thread: %v", r)}
					e.Unsupported[pe.msg]++
				}
				ts.abort = &pe
				// hand control back to the main thread, which re-raises
				ts.cur = ts.threads[0]
				ts.threads[0].wake <- struct{}{}
				return
			}
			// normal end: pass the baton
			e.passBaton()
		}()
		e.cur, e.depth = nil, 0
		run()
	}()
}

// runnable lists the threads that can continue.
func (ts *threadState) runnable() []*thread {
	var out []*thread
	for _, t := range ts.threads {
		if t.done {
			continue
		}
		if t.cond == nil || t.cond() {
			out = append(out, t)
		}
	}
	return out
}

func (e *Exec) describeBlocked() string {
	var parts []string
	for _, t := range e.threads.threads {
		if !t.done {
			parts = append(parts, t.name+":"+t.what)
		}
	}
	return strings.Join(parts, ",")
}

// pick chooses the next thread among the runnable ones (a path decision).
func (e *Exec) pick(run []*thread, mayStay bool) *thread {
	ts := e.threads
	if len(run) == 1 {
		return run[0]
	}
	if mayStay && e.cfg.MaxSwitches > 0 && ts.switches >= e.cfg.MaxSwitches {
		for _, t := range run {
			if t == ts.cur {
				return t
			}
		}
	}
	vals := make([]uint64, len(run))
	cons := make([]*Term, len(run))
	for i, t := range run {
		vals[i] = uint64(t.id)
		cons[i] = e.ts.True
	}
	v := e.choose("sched", vals, cons)
	for _, t := range run {
		if uint64(t.id) == v {
			return t
		}
	}
	panic("internal: scheduled thread not runnable")
}

// switchTo parks the current thread and runs next.
func (e *Exec) switchTo(next *thread) {
	ts := e.threads
	cur := ts.cur
	if next == cur {
		return
	}
	ts.switches++
	cur.saveCur, cur.saveDep = e.cur, e.depth
	ts.cur = next
	next.wake <- struct{}{}
	<-cur.wake
	if ts.killed {
		panic(killedThread{})
	}
	if ts.abort != nil && cur.id == 0 {
		pe := *ts.abort
		panic(pe)
	}
	e.cur, e.depth = cur.saveCur, cur.saveDep
}

// passBaton is called by a finished thread.
func (e *Exec) passBaton() {
	ts := e.threads
	if ts == nil || ts.killed {
		return
	}
	run := ts.runnable()
	if len(run) == 0 {
		// nobody can run: the main thread is blocked forever (or done, which cannot be: it would have ended the path)
		pe := pathEnd{kind: "deadlock", msg: e.describeBlocked()}
		e.deadlockViolation()
		ts.abort = &pe
		ts.cur = ts.threads[0]
		ts.threads[0].wake <- struct{}{}
		return
	}
	next := e.pick(run, false)
	ts.cur = next
	next.wake <- struct{}{}
}

func (e *Exec) deadlockViolation() {
	label := "deadlock:" + e.describeBlocked()
	if l, ok := e.envState["deadlock-label"].(*StrV); ok {
		label = l.S
	}
	e.check(e.ts.False, label)
}

// syncPoint: the current thread is about to perform a synchronisation operation;
// any runnable thread may run first.
func (e *Exec) syncPoint(what string) {
	ts := e.tstate()
	ts.cur.what = what
	run := ts.runnable()
	if len(run) <= 1 {
		return
	}
	next := e.pick(run, true)
	e.switchTo(next)
}

// waitUntil blocks the current thread until cond holds.
func (e *Exec) waitUntil(cond func() bool, what string) {
	ts := e.tstate()
	for !cond() {
		cur := ts.cur
		cur.cond, cur.what = cond, what
		run := ts.runnable()
		if len(run) == 0 {
			e.deadlockViolation()
			e.abort("deadlock", e.describeBlocked())
		}
		next := e.pick(run, false)
		e.switchTo(next)
		cur.cond = nil
	}
	ts.cur.cond = nil
}

// ----- go statements -----

func (e *Exec) threadGo(fr *frame, ins *ssa.Go) {
	fnv, args := e.prepareCall(fr, &ins.Call)
	cc := &ins.Call
	name := fmt.Sprintf("go@%s", e.posStr(ins.Pos()))
	e.spawn(name, func() {
		e.invokePrepared(nil, cc, fnv, args)
	})
}

// ----- channels -----

type sendItem struct {
	v     Value
	taken bool
}

type chanExtra struct {
	sendq       []*sendItem
	handoff     []Value
	recvWaiters int
}

func (e *Exec) cx(c *ChanObj) *chanExtra {
	key := fmt.Sprintf("chan:%d", c.id)
	if x, ok := e.envState[key].(*chanExtraBox); ok {
		return x.x
	}
	b := &chanExtraBox{x: &chanExtra{}}
	e.envState[key] = b
	return b.x
}

type chanExtraBox struct{ x *chanExtra }

func (e *Exec) threadSend(ch Value, v Value) {
	c, ok := ch.(*ChanObj)
	if !ok {
		if _, isO := ch.(*OpaqueV); isO {
			return
		}
		e.unsupported("send on %T", ch)
	}
	e.syncPoint("send")
	if c == nil {
		e.waitUntil(func() bool { return false }, "send on nil channel")
	}
	if c.Closed {
		e.goPanic("send on closed channel")
	}
	x := e.cx(c)
	if len(c.Buf) < c.Cap {
		c.Buf = append(c.Buf, v)
		return
	}
	if x.recvWaiters > len(x.handoff) {
		x.handoff = append(x.handoff, v)
		return
	}
	item := &sendItem{v: v}
	x.sendq = append(x.sendq, item)
	e.waitUntil(func() bool { return item.taken || c.Closed }, "chan send")
	if !item.taken {
		e.goPanic("send on closed channel")
	}
}

func (e *Exec) recvReady(c *ChanObj) bool {
	if c == nil {
		return false
	}
	x := e.cx(c)
	if c.TimerArmed && e.threads != nil && e.threads.switches > c.TimerAt {
		c.TimerArmed = false
		c.Buf = append(c.Buf, mkTime(e, e.ts.Const(64, 0)))
	}
	return len(x.handoff) > 0 || len(c.Buf) > 0 || len(x.sendq) > 0 || c.Closed
}

// takeRecv performs a ready receive.
func (e *Exec) takeRecv(c *ChanObj) (Value, bool) {
	x := e.cx(c)
	if len(x.handoff) > 0 {
		v := x.handoff[0]
		x.handoff = x.handoff[1:]
		return v, true
	}
	if len(c.Buf) > 0 {
		v := c.Buf[0]
		c.Buf = c.Buf[1:]
		if len(x.sendq) > 0 {
			it := x.sendq[0]
			x.sendq = x.sendq[1:]
			c.Buf = append(c.Buf, it.v)
			it.taken = true
		}
		return v, true
	}
	if len(x.sendq) > 0 {
		it := x.sendq[0]
		x.sendq = x.sendq[1:]
		it.taken = true
		return it.v, true
	}
	return nil, false // closed
}

func (e *Exec) threadRecv(ch Value, commaOk bool, t types.Type) Value {
	c, ok := ch.(*ChanObj)
	if !ok {
		if _, isO := ch.(*OpaqueV); isO {
			e.waitUntil(func() bool { return false }, "receive on opaque channel")
		}
		e.unsupported("recv on %T", ch)
	}
	et := t
	if commaOk {
		et = t.(*types.Tuple).At(0).Type()
	}
	e.syncPoint("recv")
	if c == nil {
		e.waitUntil(func() bool { return false }, "receive on nil channel")
	}
	if !e.recvReady(c) {
		x := e.cx(c)
		x.recvWaiters++
		e.waitUntil(func() bool { return e.recvReady(c) }, "chan receive")
		x.recvWaiters--
	}
	v, got := e.takeRecv(c)
	if !got {
		v = e.zero(et)
	}
	if commaOk {
		return TupleV{v, e.ts.Bool(got)}
	}
	return v
}

func (e *Exec) threadWake() {}

func (e *Exec) threadSelect(fr *frame, ins *ssa.Select) Value {
	tt := ins.Type().(*types.Tuple)
	mk := func(idx int, recvOk bool, recvIdx int, recvVal Value) Value {
		tv := make(TupleV, tt.Len())
		tv[0] = e.ts.Const(64, uint64(int64(idx)))
		tv[1] = e.ts.Bool(recvOk)
		k := 2
		for i, st := range ins.States {
			if st.Dir == types.RecvOnly {
				if i == recvIdx && recvVal != nil {
					tv[k] = recvVal
				} else {
					tv[k] = e.zero(tt.At(k).Type())
				}
				k++
			}
		}
		return tv
	}
	chans := make([]*ChanObj, len(ins.States))
	for i, st := range ins.States {
		c, _ := e.get(fr, st.Chan).(*ChanObj)
		chans[i] = c
	}
	e.syncPoint("select")
	ready := func() []int {
		var r []int
		for i, st := range ins.States {
			c := chans[i]
			if c == nil {
				continue
			}
			if st.Dir == types.RecvOnly {
				if e.recvReady(c) {
					r = append(r, i)
				}
			} else {
				x := e.cx(c)
				if c.Closed || len(c.Buf) < c.Cap || x.recvWaiters > len(x.handoff) {
					r = append(r, i)
				}
			}
		}
		return r
	}
	for {
		r := ready()
		if len(r) > 0 {
			i := r[0]
			if len(r) > 1 {
				vals := make([]uint64, len(r))
				cons := make([]*Term, len(r))
				for k := range r {
					vals[k] = uint64(r[k])
					cons[k] = e.ts.True
				}
				i = int(e.choose("select", vals, cons))
			}
			st := ins.States[i]
			c := chans[i]
			if st.Dir == types.RecvOnly {
				v, got := e.takeRecv(c)
				return mk(i, got, i, v)
			}
			if c.Closed {
				e.goPanic("send on closed channel")
			}
			x := e.cx(c)
			v := e.get(fr, st.Send)
			if len(c.Buf) < c.Cap {
				c.Buf = append(c.Buf, v)
			} else {
				x.handoff = append(x.handoff, v)
			}
			return mk(i, false, -1, nil)
		}
		if !ins.Blocking {
			return mk(-1, false, -1, nil)
		}
		for i, st := range ins.States {
			if st.Dir == types.RecvOnly && chans[i] != nil {
				e.cx(chans[i]).recvWaiters++
			}
		}
		e.waitUntil(func() bool { return len(ready()) > 0 }, "select")
		for i, st := range ins.States {
			if st.Dir == types.RecvOnly && chans[i] != nil {
				e.cx(chans[i]).recvWaiters--
			}
		}
	}
}

// ----- mutexes -----

func (e *Exec) mutex(v Value) *mutexState {
	c, ok := v.(*Cell)
	if !ok || c == nil {
		e.unsupported("mutex receiver %T", v)
	}
	ts := e.tstate()
	m := ts.mutexes[c]
	if m == nil {
		m = &mutexState{}
		ts.mutexes[c] = m
	}
	return m
}

func thLock(e *Exec, fn *ssa.Function, a []Value) Value {
	m := e.mutex(a[0])
	e.syncPoint("lock")
	e.waitUntil(func() bool { return !m.writer && m.readers == 0 }, "mutex lock")
	m.writer = true
	return nil
}

func thUnlock(e *Exec, fn *ssa.Function, a []Value) Value {
	m := e.mutex(a[0])
	if !m.writer {
		e.goPanic("unlock of unlocked mutex")
	}
	m.writer = false
	return nil
}

func thRLock(e *Exec, fn *ssa.Function, a []Value) Value {
	m := e.mutex(a[0])
	e.syncPoint("rlock")
	e.waitUntil(func() bool { return !m.writer }, "rwmutex rlock")
	m.readers++
	return nil
}

func thRUnlock(e *Exec, fn *ssa.Function, a []Value) Value {
	m := e.mutex(a[0])
	if m.readers <= 0 {
		e.goPanic("runlock of unlocked rwmutex")
	}
	m.readers--
	return nil
}

var threadIntrinsics = map[string]func(e *Exec, fn *ssa.Function, args []Value) Value{
	"(*sync.Mutex).Lock":      thLock,
	"(*sync.Mutex).Unlock":    thUnlock,
	"(*sync.RWMutex).Lock":    thLock,
	"(*sync.RWMutex).Unlock":  thUnlock,
	"(*sync.RWMutex).RLock":   thRLock,
	"(*sync.RWMutex).RUnlock": thRUnlock,
}

// ----- harness API for threads -----

func inZZGo(e *Exec, fn *ssa.Function, a []Value) Value {
	name := e.concStr(a[0], "thread name")
	f := a[1]
	if !e.cfg.ThreadMode {
		e.unsupported("zz.Go outside thread mode")
	}
	e.spawn(name, func() { e.callValue(f, nil) })
	return nil
}

// WaitThreads(label): the main thread waits until all other threads are done; a deadlock is reported under label.
func inZZWaitThreads(e *Exec, fn *ssa.Function, a []Value) Value {
	if !e.cfg.ThreadMode {
		return nil
	}
	ts := e.tstate()
	e.envState["deadlock-label"] = a[0]
	e.waitUntil(func() bool {
		for _, t := range ts.threads[1:] {
			if !t.done {
				return false
			}
		}
		return true
	}, "wait for threads")
	delete(e.envState, "deadlock-label")
	return nil
}

// Settle(): the main thread waits until no other thread can run (all blocked or done).
func inZZSettle(e *Exec, fn *ssa.Function, a []Value) Value {
	if !e.cfg.ThreadMode {
		return nil
	}
	ts := e.tstate()
	for {
		var others []*thread
		for _, t := range ts.threads[1:] {
			if !t.done && (t.cond == nil || t.cond()) {
				others = append(others, t)
			}
		}
		if len(others) == 0 {
			return nil
		}
		next := e.pick(others, false)
		e.switchTo(next)
	}
}

func inZZYield(e *Exec, fn *ssa.Function, a []Value) Value {
	if e.cfg.ThreadMode {
		e.syncPoint("yield")
	}
	return nil
}
