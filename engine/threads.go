package main

import (
	"go/types"
	"runtime"

	"golang.org/x/tools/go/ssa"
)

func runtimeStack(buf []byte) int { return runtime.Stack(buf, false) }

func (e *Exec) threadGo(fr *frame, ins *ssa.Go)                                 { e.unsupported("thread mode not built") }
func (e *Exec) threadSend(ch Value, v Value)                                    { e.unsupported("thread mode not built") }
func (e *Exec) threadRecv(ch Value, commaOk bool, t types.Type) Value           { e.unsupported("thread mode not built"); return nil }
func (e *Exec) threadWake()                                                     {}
func (e *Exec) threadSelect(fr *frame, ins *ssa.Select) Value                   { e.unsupported("thread mode not built"); return nil }
