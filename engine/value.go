package main

import (
	"fmt"
	"go/types"

	"golang.org/x/tools/go/ssa"
)

// Value is a symbolic Go value. Concrete kinds:
//
//	*Term        integers (bit-vector) and booleans
//	FloatV       concrete or opaque float
//	*StrV        string with concrete length
//	*Cell        pointer (nil pointer = (*Cell)(nil) typed NilPtr)
//	SliceV       slice with concrete shape
//	*StructV     struct value
//	*ArrayV      array value
//	TupleV       multi-value result
//	IfaceV       interface value
//	*FuncV       function value / closure
//	*MapObj      map
//	*ChanObj     channel
//	*OpaqueV     result of a stubbed call
type Value interface{}

type FloatV struct {
	F      float64
	Opaque bool
}

// StrV is a string; if Sym == nil the content is the concrete S.
type StrV struct {
	S   string
	Sym []*Term // len == length of string, 8-bit terms
}

func (s *StrV) Len() int {
	if s.Sym != nil {
		return len(s.Sym)
	}
	return len(s.S)
}

func (s *StrV) Concrete() bool { return s.Sym == nil }

// Cell is an addressable memory location.
type Cell struct {
	V      Value
	Fields []*Cell
	Arr    *Array
	Typ    types.Type
	id     int
}

// Array is the backing store of slices and array-typed cells.
type Array struct {
	N      int
	Elem   types.Type
	dense  []*Cell
	sparse map[int]*Cell
	id     int
}

type SliceV struct {
	Arr *Array
	Off int
	Len int
	Cap int
}

func (s SliceV) IsNil() bool { return s.Arr == nil }

type StructV struct {
	F []Value
}

type ArrayV struct {
	E []Value
}

type TupleV []Value

type IfaceV struct {
	T types.Type // nil for nil interface
	V Value
}

type FuncV struct {
	Fn       *ssa.Function
	Bindings []Value
	Builtin  *ssa.Builtin
	Native   func(e *Exec, args []Value) Value // engine-provided function
	Name     string
}

type mapEntry struct {
	K Value
	V *Cell
}

type MapObj struct {
	T       *types.Map
	Entries []*mapEntry // insertion order; deleted entries removed
	id      int
}

type ChanObj struct {
	T      *types.Chan
	Cap    int
	Buf    []Value
	Closed bool
	id     int
	Opaque bool
	// thread mode: the channel of a time.Timer; it delivers once some other thread has been
	// scheduled since the timer was created (time passes only while others run)
	TimerArmed bool
	TimerAt    int
}

type OpaqueV struct {
	T    types.Type
	Note string
}

type NilPtr struct{}

// RangeIter is the state of a range over map/string.
type RangeIter struct {
	M    *MapObj
	Keys []*mapEntry
	S    *StrV
	I    int
}

func (e *Exec) newCell(t types.Type) *Cell {
	e.cellID++
	c := &Cell{Typ: t, id: e.cellID}
	e.initCell(c, t)
	return c
}

func (e *Exec) initCell(c *Cell, t types.Type) {
	switch u := t.Underlying().(type) {
	case *types.Struct:
		c.Fields = make([]*Cell, u.NumFields())
		for i := 0; i < u.NumFields(); i++ {
			c.Fields[i] = e.newCell(u.Field(i).Type())
		}
	case *types.Array:
		c.Arr = e.newArray(u.Elem(), int(u.Len()))
	default:
		c.V = e.zero(t)
	}
}

func (e *Exec) newArray(elem types.Type, n int) *Array {
	e.cellID++
	a := &Array{N: n, Elem: elem, id: e.cellID}
	if n <= 1<<16 {
		a.dense = make([]*Cell, n)
	} else {
		a.sparse = map[int]*Cell{}
	}
	return a
}

func (e *Exec) at(a *Array, i int) *Cell {
	if i < 0 || i >= a.N {
		panic(fmt.Sprintf("internal: array index %d out of range %d", i, a.N))
	}
	if a.dense != nil {
		c := a.dense[i]
		if c == nil {
			c = e.newCell(a.Elem)
			a.dense[i] = c
		}
		return c
	}
	c := a.sparse[i]
	if c == nil {
		c = e.newCell(a.Elem)
		a.sparse[i] = c
	}
	return c
}

// peek returns the cell at i without allocating (nil if still zero).
func (a *Array) peek(i int) *Cell {
	if a.dense != nil {
		return a.dense[i]
	}
	return a.sparse[i]
}

func isByteType(t types.Type) bool {
	b, ok := t.Underlying().(*types.Basic)
	return ok && (b.Kind() == types.Uint8 || b.Kind() == types.Int8)
}

// intWidth returns bit width and signedness for integer/bool basic types.
func intWidth(t types.Type) (w int, signed bool, ok bool) {
	b, isB := t.Underlying().(*types.Basic)
	if !isB {
		if _, isP := t.Underlying().(*types.Pointer); isP {
			return 0, false, false
		}
		return 0, false, false
	}
	switch b.Kind() {
	case types.Bool, types.UntypedBool:
		return 0, false, true
	case types.Int8:
		return 8, true, true
	case types.Int16:
		return 16, true, true
	case types.Int32, types.UntypedRune:
		return 32, true, true
	case types.Int64, types.Int, types.UntypedInt:
		return 64, true, true
	case types.Uint8:
		return 8, false, true
	case types.Uint16:
		return 16, false, true
	case types.Uint32:
		return 32, false, true
	case types.Uint64, types.Uint, types.Uintptr:
		return 64, false, true
	}
	return 0, false, false
}

func isFloat(t types.Type) bool {
	b, ok := t.Underlying().(*types.Basic)
	return ok && b.Info()&types.IsFloat != 0
}

func isString(t types.Type) bool {
	b, ok := t.Underlying().(*types.Basic)
	return ok && b.Info()&types.IsString != 0
}

// zero returns the zero value for a non-aggregate-in-memory use (register).
func (e *Exec) zero(t types.Type) Value {
	switch u := t.Underlying().(type) {
	case *types.Basic:
		if w, _, ok := intWidth(t); ok {
			return e.ts.Const(w, 0)
		}
		if u.Info()&types.IsFloat != 0 {
			return FloatV{}
		}
		if u.Info()&types.IsString != 0 {
			return &StrV{}
		}
		if u.Kind() == types.UnsafePointer {
			return NilPtr{}
		}
		if u.Kind() == types.UntypedNil {
			return NilPtr{}
		}
		if u.Info()&types.IsComplex != 0 {
			return FloatV{}
		}
	case *types.Pointer:
		return NilPtr{}
	case *types.Slice:
		return SliceV{}
	case *types.Struct:
		f := make([]Value, u.NumFields())
		for i := range f {
			f[i] = e.zero(u.Field(i).Type())
		}
		return &StructV{F: f}
	case *types.Array:
		el := make([]Value, u.Len())
		for i := range el {
			el[i] = e.zero(u.Elem())
		}
		return &ArrayV{E: el}
	case *types.Interface:
		return IfaceV{}
	case *types.Map:
		return (*MapObj)(nil)
	case *types.Chan:
		return (*ChanObj)(nil)
	case *types.Signature:
		return (*FuncV)(nil)
	case *types.Tuple:
		tv := make(TupleV, u.Len())
		for i := range tv {
			tv[i] = e.zero(u.At(i).Type())
		}
		return tv
	case *types.TypeParam:
		return IfaceV{}
	}
	panic(fmt.Sprintf("zero: unsupported type %v", t))
}

// load reads the value stored in a cell.
func (e *Exec) load(c *Cell) Value {
	if c.Fields != nil {
		f := make([]Value, len(c.Fields))
		for i, fc := range c.Fields {
			f[i] = e.load(fc)
		}
		return &StructV{F: f}
	}
	if c.Arr != nil {
		el := make([]Value, c.Arr.N)
		for i := range el {
			if p := c.Arr.peek(i); p != nil {
				el[i] = e.load(p)
			} else {
				el[i] = e.zero(c.Arr.Elem)
			}
		}
		return &ArrayV{E: el}
	}
	return c.V
}

// store writes v into the cell (deep copy for aggregates).
func (e *Exec) store(c *Cell, v Value) {
	if c.Fields != nil {
		sv, ok := v.(*StructV)
		if !ok {
			if o, isO := v.(*OpaqueV); isO {
				for _, fc := range c.Fields {
					e.store(fc, e.opaqueOrZero(fc.Typ, o.Note))
				}
				return
			}
			panic(fmt.Sprintf("store: struct cell gets %T", v))
		}
		for i, fc := range c.Fields {
			e.store(fc, sv.F[i])
		}
		return
	}
	if c.Arr != nil {
		av, ok := v.(*ArrayV)
		if !ok {
			panic(fmt.Sprintf("store: array cell gets %T", v))
		}
		for i := range av.E {
			e.store(e.at(c.Arr, i), av.E[i])
		}
		return
	}
	c.V = v
}

// opaqueOrZero: scalars become zero, the rest opaque.
func (e *Exec) opaqueOrZero(t types.Type, note string) Value {
	switch u := t.Underlying().(type) {
	case *types.Basic:
		return e.zero(t)
	case *types.Struct:
		f := make([]Value, u.NumFields())
		for i := range f {
			f[i] = e.opaqueOrZero(u.Field(i).Type(), note)
		}
		return &StructV{F: f}
	case *types.Slice:
		return SliceV{}
	case *types.Interface:
		if isErrorType(t) {
			return IfaceV{}
		}
		return IfaceV{T: opaqueType, V: &OpaqueV{T: t, Note: note}}
	case *types.Map:
		return (*MapObj)(nil)
	case *types.Tuple:
		tv := make(TupleV, u.Len())
		for i := range tv {
			tv[i] = e.opaqueOrZero(u.At(i).Type(), note)
		}
		return tv
	case *types.Array:
		return e.zero(t)
	}
	return &OpaqueV{T: t, Note: note}
}

var opaqueType types.Type = types.NewNamed(types.NewTypeName(0, nil, "opaque!", nil), types.NewStruct(nil, nil), nil)

func isErrorType(t types.Type) bool {
	return types.Identical(t, types.Universe.Lookup("error").Type())
}

func isNilPtr(v Value) bool {
	switch x := v.(type) {
	case NilPtr:
		return true
	case *Cell:
		return x == nil
	}
	return false
}

func (e *Exec) strConst(s string) *StrV { return &StrV{S: s} }

// strBytes returns the 8-bit terms of a string.
func (e *Exec) strBytes(s *StrV) []*Term {
	if s.Sym != nil {
		return s.Sym
	}
	out := make([]*Term, len(s.S))
	for i := 0; i < len(s.S); i++ {
		out[i] = e.ts.Const(8, uint64(s.S[i]))
	}
	return out
}

// mkStr builds a string from byte terms, concretising when possible.
func (e *Exec) mkStr(bs []*Term) *StrV {
	allc := true
	for _, b := range bs {
		if !b.IsConst() {
			allc = false
			break
		}
	}
	if allc {
		buf := make([]byte, len(bs))
		for i, b := range bs {
			buf[i] = byte(b.K)
		}
		return &StrV{S: string(buf)}
	}
	cp := make([]*Term, len(bs))
	copy(cp, bs)
	return &StrV{Sym: cp}
}

// sliceBytes reads the byte terms of a byte slice.
func (e *Exec) sliceBytes(s SliceV) []*Term {
	out := make([]*Term, s.Len)
	for i := 0; i < s.Len; i++ {
		if c := s.Arr.peek(s.Off + i); c != nil {
			out[i] = c.V.(*Term)
		} else {
			out[i] = e.ts.Const(8, 0)
		}
	}
	return out
}

// newByteSlice allocates a fresh byte slice holding the given terms.
func (e *Exec) newByteSlice(bs []*Term, capacity int) SliceV {
	if capacity < len(bs) {
		capacity = len(bs)
	}
	arr := e.newArray(types.Typ[types.Uint8], capacity)
	for i, b := range bs {
		if b.IsConst() && b.K == 0 {
			continue
		}
		e.at(arr, i).V = b
	}
	return SliceV{Arr: arr, Off: 0, Len: len(bs), Cap: capacity}
}
