package main

import (
	"encoding/json"
	"flag"
	"fmt"
	"os"
	"os/exec"
	"path/filepath"
	"runtime/debug"
	"runtime/pprof"
	"sort"
	"strings"
	"sync"
	"time"

	"golang.org/x/tools/go/packages"
	"golang.org/x/tools/go/ssa"
	"golang.org/x/tools/go/ssa/ssautil"
)

// Job describes one harness run (one exploration with its own solver).
type Job struct {
	ID                 string         `json:"id"`     // unique job name
	Pkg                string         `json:"pkg"`    // package path of the harness
	Func               string         `json:"func"`   // harness function
	Unwind             int            `json:"unwind"` // loop unwinding bound per frame (0 = none)
	Steps              int            `json:"steps"`  // instruction budget per path
	MaxPaths           int            `json:"max_paths"`
	PanicsOK           bool           `json:"panics_ok"`
	Shard              int            `json:"shard"`
	NShards            int            `json:"nshards"`
	Timeout            int            `json:"solver_timeout_ms"`
	Threads            bool           `json:"threads"`
	Switches           int            `json:"max_switches"`
	MaxEnum            int            `json:"max_enum"`
	Solver             string         `json:"solver"`
	Seed               uint64         `json:"seed"`
	StopAfterViolation int            `json:"stop_after_violation"`
	MaxWallS           int            `json:"max_wall_s"`
	Params             map[string]int `json:"params"` // values of zz.Param (bounds a tier may raise)
}

type JobResult struct {
	Job          Job                      `json:"job"`
	Paths        int                      `json:"paths"`
	PathsByKind  map[string]int           `json:"paths_by_kind"`
	Obligations  int                      `json:"obligations"`
	Discharged   int                      `json:"discharged"`
	ConcreteObl  int                      `json:"concrete_obligations"`
	FeasQueries  int                      `json:"feasibility_queries"`
	SolverQ      int                      `json:"solver_queries"`
	SolverSat    int                      `json:"solver_sat"`
	SolverUnsat  int                      `json:"solver_unsat"`
	SolverUnk    int                      `json:"solver_unknown"`
	SolverTimeS  float64                  `json:"solver_time_s"`
	SolverSendS  float64                  `json:"solver_send_s"`
	SolverBytes  int64                    `json:"solver_bytes"`
	WallS        float64                  `json:"wall_s"`
	Unknowns     int                      `json:"unknowns"`
	Violations   []*Violation             `json:"violations"`
	Reached      []string                 `json:"reached"`
	Funcs        map[string]int           `json:"functions_encoded"`
	Stubs        map[string]int           `json:"stubs_hit"`
	Redirects    map[string]int           `json:"redirects_hit"`
	Unsupported  map[string]int           `json:"unsupported"`
	Samples      []map[string]interface{} `json:"samples"`
	Labels       map[string]int           `json:"assert_labels"`
	SolverErrors []string                 `json:"solver_errors"`
	Fallbacks    int                      `json:"cvc5_fallback_queries"`
	FallbackS    float64                  `json:"cvc5_fallback_time_s"`
	Steps        int64                    `json:"ssa_steps"`
	Records      map[string]string        `json:"records,omitempty"`
	Error        string                   `json:"error,omitempty"`
}

func main() {
	var (
		dir      = flag.String("dir", "/repo", "repository root")
		overlayF = flag.String("overlay", "", "overlay json {virtual: real}")
		jobsF    = flag.String("jobs", "", "jobs json file")
		outF     = flag.String("out", "", "result json file")
		par      = flag.Int("j", 8, "parallel workers")
		trace    = flag.Bool("trace", false, "trace paths")
		logDir   = flag.String("smtlog", "", "directory for SMT logs")
		pkgsF    = flag.String("pkgs", "./...", "package patterns (comma separated)")
		listFns  = flag.String("dump", "", "dump SSA of function (pkg.Func)")
		cpuprof  = flag.String("cpuprofile", "", "write cpu profile")
	)
	flag.Parse()
	// the loaded program is a large, long-lived heap: collect rarely
	debug.SetGCPercent(1000)
	if *cpuprof != "" {
		f, _ := os.Create(*cpuprof)
		pprof.StartCPUProfile(f)
		defer pprof.StopCPUProfile()
	}

	overlay := map[string][]byte{}
	if *overlayF != "" {
		raw, err := os.ReadFile(*overlayF)
		if err != nil {
			fatal(err)
		}
		var ov struct{ Replace map[string]string }
		if err := json.Unmarshal(raw, &ov); err != nil {
			fatal(err)
		}
		for virt, real := range ov.Replace {
			b, err := os.ReadFile(real)
			if err != nil {
				fatal(err)
			}
			overlay[virt] = b
		}
	}
	t0 := time.Now()
	cfg := &packages.Config{
		Mode:       packages.LoadAllSyntax,
		Dir:        *dir,
		BuildFlags: []string{"-tags=verif"},
		Overlay:    overlay,
		Env:        append(os.Environ(), "GOFLAGS=-mod=mod", "GOPROXY=off", "GOSUMDB=off"),
	}
	pats := strings.Split(*pkgsF, ",")
	pkgs, err := packages.Load(cfg, pats...)
	if err != nil {
		fatal(err)
	}
	nerr := 0
	packages.Visit(pkgs, nil, func(p *packages.Package) {
		for _, e := range p.Errors {
			if strings.HasPrefix(p.PkgPath, repoMod) {
				fmt.Fprintf(os.Stderr, "load error %s: %v\n", p.PkgPath, e)
				nerr++
			}
		}
	})
	if nerr > 0 {
		fatal(fmt.Errorf("%d package load errors", nerr))
	}
	prog, _ := ssautil.AllPackages(pkgs, ssa.InstantiateGenerics)
	prog.Build()
	fmt.Fprintf(os.Stderr, "loaded %d packages, SSA built in %.1fs\n", len(prog.AllPackages()), time.Since(t0).Seconds())

	if err := resolveRedirects(prog, redirectTable); err != nil {
		fatal(err)
	}

	if *listFns != "" {
		fn := findFunc(prog, *listFns)
		if fn == nil {
			fatal(fmt.Errorf("function %s not found", *listFns))
		}
		fn.WriteTo(os.Stdout)
		return
	}

	raw, err := os.ReadFile(*jobsF)
	if err != nil {
		fatal(err)
	}
	var jobs []Job
	if err := json.Unmarshal(raw, &jobs); err != nil {
		fatal(err)
	}
	results := make([]*JobResult, len(jobs))
	var wg sync.WaitGroup
	sem := make(chan struct{}, *par)
	for i := range jobs {
		wg.Add(1)
		go func(i int) {
			defer wg.Done()
			sem <- struct{}{}
			defer func() { <-sem }()
			results[i] = runJob(prog, jobs[i], *trace, *logDir)
			fmt.Fprintf(os.Stderr, "job %s: %d paths %v in %.1fs\n", jobs[i].ID, results[i].Paths, results[i].PathsByKind, results[i].WallS)
		}(i)
	}
	wg.Wait()
	out, _ := json.MarshalIndent(results, "", " ")
	if *outF != "" {
		if err := os.WriteFile(*outF, out, 0o644); err != nil {
			fatal(err)
		}
	} else {
		os.Stdout.Write(out)
	}
}

func fatal(err error) {
	fmt.Fprintln(os.Stderr, "gosym:", err)
	os.Exit(3)
}

func findFunc(prog *ssa.Program, name string) *ssa.Function {
	i := strings.LastIndexByte(name, '.')
	pkgPath, fname := name[:i], name[i+1:]
	for _, p := range prog.AllPackages() {
		if p.Pkg.Path() == pkgPath {
			if f := p.Func(fname); f != nil {
				return f
			}
			// method: Type.Method
			for _, m := range p.Members {
				if t, ok := m.(*ssa.Type); ok {
					for _, recv := range []interface{ String() string }{t.Type()} {
						_ = recv
					}
					ms := prog.MethodSets.MethodSet(t.Type())
					for k := 0; k < ms.Len(); k++ {
						if t.Name()+"."+ms.At(k).Obj().Name() == fname {
							return prog.MethodValue(ms.At(k))
						}
					}
				}
			}
		}
	}
	return nil
}

func runJob(prog *ssa.Program, job Job, trace bool, logDir string) (res *JobResult) {
	res = &JobResult{Job: job}
	t0 := time.Now()
	defer func() {
		res.WallS = time.Since(t0).Seconds()
		if r := recover(); r != nil {
			res.Error = fmt.Sprintf("engine panic: %v", r)
			buf := make([]byte, 1<<14)
			n := runtimeStack(buf)
			res.Error += "\n" + string(buf[:n])
		}
	}()
	var pkg *ssa.Package
	for _, p := range prog.AllPackages() {
		if p.Pkg.Path() == job.Pkg {
			pkg = p
		}
	}
	if pkg == nil {
		res.Error = "package not found: " + job.Pkg
		return
	}
	fn := pkg.Func(job.Func)
	if fn == nil {
		res.Error = "harness not found: " + job.Func
		return
	}
	bin := job.Solver
	if bin == "" {
		bin = "z3"
		if _, err := exec.LookPath("z3-new"); err == nil {
			bin = "z3-new" // z3 5.1.0: about twice as fast on these queries; thorough re-checks with 4.8.12
		}
	}
	to := job.Timeout
	if to == 0 {
		to = 10000
	}
	logPath := ""
	if logDir != "" {
		os.MkdirAll(logDir, 0o755)
		logPath = filepath.Join(logDir, job.ID+".smt2")
	}
	sol, err := NewSolver(bin, to, logPath)
	if err != nil {
		res.Error = err.Error()
		return
	}
	defer sol.Close()
	ts := NewTermStore()
	cfg := Config{
		MaxUnwind: job.Unwind, MaxSteps: job.Steps, MaxPaths: job.MaxPaths, PanicsOK: job.PanicsOK,
		Shard: job.Shard, NShards: job.NShards, Trace: trace, ThreadMode: job.Threads, MaxSwitches: job.Switches, Params: job.Params,
		MaxEnum: job.MaxEnum, Seed: job.Seed, StopAfterViolation: job.StopAfterViolation, MaxWallS: job.MaxWallS,
	}
	if cfg.MaxSteps == 0 {
		cfg.MaxSteps = 2000000
	}
	ex := NewExec(prog, sol, ts, cfg)
	ex.RunHarness(fn)
	res.Paths = ex.Paths
	res.PathsByKind = ex.PathsByKind
	res.Obligations = ex.Obligations
	res.Discharged = ex.Discharged
	res.ConcreteObl = ex.ConcreteObl
	res.FeasQueries = ex.FeasQueries
	res.SolverQ = sol.Queries
	res.SolverSat, res.SolverUnsat, res.SolverUnk = sol.NSat, sol.NUnsat, sol.NUnk
	res.SolverTimeS = sol.Time.Seconds()
	res.SolverSendS = sol.SendT.Seconds()
	res.SolverBytes = sol.SentBytes
	res.Unknowns = ex.Unknowns
	for _, l := range ex.VioOrder {
		res.Violations = append(res.Violations, ex.Violations[l])
	}
	for l := range ex.ReachedAll {
		res.Reached = append(res.Reached, l)
	}
	sort.Strings(res.Reached)
	res.Funcs = ex.FuncsEntered
	res.Stubs = ex.StubsHit
	res.Redirects = ex.RedirectsHit
	res.Unsupported = ex.Unsupported
	res.Samples = ex.Samples
	res.Labels = ex.assertLabels
	res.SolverErrors = sol.Errors
	res.Fallbacks = sol.Fallbacks
	res.FallbackS = sol.FallbackT.Seconds()
	res.Steps = ex.TotalSteps
	res.Records = ex.Records
	return
}
