#!/bin/sh
# builds the engine with the only toolchain that can (see DESIGN.md section 2)
cd /verif/engine && GOFLAGS=-mod=mod GOPROXY=off GOSUMDB=off GOTOOLCHAIN=local PATH=/opt/veriftools/go1.26.8/bin:$PATH go build -o /verif/bin/gosym .
